#!/bin/bash
# Line coverage of /repo/labrea reached by the quick checks (single shard each, so counts are a lower bound on what
# the 8-shard runs reach). Output: /tmp/labrea_cov/report.txt  (scratch only; nothing registered depends on it)
cd "$(dirname "$0")/.." || exit 2
OUT=/tmp/labrea_cov; rm -rf $OUT; mkdir -p $OUT
export PYTHONHASHSEED=0 LABREA_VERIF=1 PYTHONPATH=/repo:/verif:/verif/.deps COVERAGE_CORE=sysmon
run() { /venv/bin/python -m coverage run --source=/repo/labrea --branch --data-file=$OUT/.coverage.$1 -m vlib.run $1 --procs 1 --no-evidence > $OUT/$1.log 2>&1; }
for p in ${@:-C01 C02 C03 C04 C05 C06 C07 C08 C09 C10 C11 C12 C13 C14 C15 C16 C17 C18 C19 C20}; do run $p & 
  while [ $(jobs -r | wc -l) -ge 10 ]; do sleep 1; done
done; wait
cd $OUT && /venv/bin/python -m coverage combine --data-file=$OUT/.coverage $OUT/.coverage.* >/dev/null && /venv/bin/python -m coverage report --data-file=$OUT/.coverage -m > $OUT/report.txt; tail -30 $OUT/report.txt
