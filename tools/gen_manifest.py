#!/usr/bin/env python3
"""Regenerate /verif/MANIFEST.json from tools/claims.json (hand-written per-property texts)."""
import json
import os

HERE = os.path.dirname(os.path.dirname(os.path.abspath(__file__)))
claims = json.load(open(os.path.join(HERE, "tools", "claims.json")))
props = [json.loads(l) for l in open(os.path.join(HERE, "properties.jsonl"))]

checks = []
na = []
for p in props:
    pid = p["id"]
    c = claims["claimed"].get(pid)
    if c is None:
        na.append({"property_id": pid, "reason": claims["not_applicable"].get(pid, "check not built yet (work in progress)")})
        continue
    checks.append({
        "property_id": pid,
        "quick_cmd": f"./check {pid} --tier quick",
        "thorough_cmd": f"./check {pid} --tier thorough",
        "evidence_file": f"/verif/evidence/{pid}.json",
        "replay_cmd_template": f"./check {pid} --replay {{path}}",
        "engine": "vlib",
        "level_claimed": {"category": c.get("category", "exploration"), "text": c["text"], "design_ref": c.get("design_ref", f"DESIGN.md section 3 ({pid})")},
        "level_note": c["note"],
        "technique": c["technique"],
    })

manifest = {
    "version": 1,
    "setup_cmd": "/venv/bin/python -c 'import hypothesis' 2>/dev/null || /venv/bin/python -m pip install -q --no-index --find-links /opt/veriftools/wheels --target /verif/.deps hypothesis",
    "hooks": {
        "guard": "LABREA_VERIF",
        "enable": "no hooks: checks import labrea from /repo's working tree via PYTHONPATH (./check sets LABREA_VERIF=1 but nothing in the repository reads it)",
        "baseline_off_cmd": "cd /repo && /venv/bin/python -m pytest -ra -q -p no:cacheprovider --timeout=900 --continue-on-collection-errors",
        "source_commits": [],
        "add_only": True,
    },
    "engines": [{
        "name": "vlib",
        "path": "/verif/vlib",
        "serves_properties": [c["property_id"] for c in checks],
        "kind_free_text": "Hypothesis-driven property-based testing: program-spec generator (specgen), builder to real labrea objects (build), independent reference interpreter (ref), per-property relations (props/*), deterministic enumeration for finite sub-spaces, harness-owned scheduler for thread interleavings",
    }],
    "checks": checks,
    "not_applicable": na,
    "notes": "All checks: ./check <ID> --tier quick|thorough ; replay: ./check <ID> --replay <file>. Known findings: /verif/known_findings.json. See DESIGN.md.",
}
json.dump(manifest, open(os.path.join(HERE, "MANIFEST.json"), "w"), indent=1)
print("claimed:", [c["property_id"] for c in checks])
print("not_applicable:", [n["property_id"] for n in na])
