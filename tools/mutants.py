#!/usr/bin/env python3
"""Sensitivity self-test: apply each mutant (a realistic single-site break) to a scratch copy of /repo under /tmp,
check that the repository's own suite stays green, run the targeted checks with VERIF_REPO pointing at the copy and
require a VIOLATION. Not a registered check; results go to mutants/results.json and are summarised in DESIGN.md.

usage: tools/mutants.py [--only ID,ID] [--tier quick] [--jobs 4] [--skip-suite]
"""
import argparse
import concurrent.futures as cf
import json
import os
import shutil
import subprocess
import sys
import time

HERE = os.path.dirname(os.path.dirname(os.path.abspath(__file__)))

# id, file, old, new, properties expected to catch it
M = []


def m(mid, file, old, new, props, count=1):
    M.append(dict(id=mid, file=file, old=old, new=new, props=props, count=count))


m("dependson-drops-dispatch", "labrea/conditional.py",
  "        return self.evaluatable.keys(options) | self.depends.keys(options)",
  "        return self.evaluatable.keys(options)", ["C01", "C03"])
m("fingerprint-whole-dict", "labrea/types.py",
  "[{key: get_dotted_key(key, options)} for key in sorted(self.keys(options))]",
  "[dict(options)] + [{key: get_dotted_key(key, options)} for key in sorted(self.keys(options))]", ["C02", "C03"])
m("fingerprint-unsorted", "labrea/types.py",
  "for key in sorted(self.keys(options))]", "for key in self.keys(options)]", ["C03"])
m("fingerprint-ignores-values", "labrea/types.py",
  "[{key: get_dotted_key(key, options)} for key in sorted(self.keys(options))]",
  "[key for key in sorted(self.keys(options))]", ["C01", "C03"])
m("option-truthiness", "labrea/option.py",
  "            try:\n                value = resolve(value, options)",
  "            if not value and self.default is not MISSING:\n                value = self.default.evaluate(options)\n            try:\n                value = resolve(value, options)", ["C04", "C05"])
m("option-eager-default", "labrea/option.py",
  "        try:\n            value = get_dotted_key(self.key, options)\n        except KeyError:",
  "        if self.default is not MISSING:\n            self.default.evaluate(options)\n        try:\n            value = get_dotted_key(self.key, options)\n        except KeyError:", ["C06"])
m("option-domain-skipped-for-default", "labrea/option.py",
  "            value = self.default.evaluate(options)\n        else:",
  "            return self.default.evaluate(options)\n        else:", ["C04"])
m("switch-unknown-key-raises", "labrea/conditional.py",
  "            if self.default is MISSING:\n                raise SwitchError(self.dispatch, key, self.lookup)  # type: ignore  [arg-type]\n            return _DependsOn(self.default, self.dispatch)",
  "            raise SwitchError(self.dispatch, key, self.lookup)  # type: ignore  [arg-type]\n            return _DependsOn(self.default, self.dispatch)", ["C05", "C07"])
m("switch-eager-branches", "labrea/conditional.py",
  "        return _DependsOn(self.lookup[key], self.dispatch)  # type: ignore  [arg-type]",
  "        for _b in self.lookup.values():\n            try:\n                _b.evaluate(options)\n            except Exception:\n                pass\n        return _DependsOn(self.lookup[key], self.dispatch)  # type: ignore  [arg-type]", ["C06"])
m("case-reversed", "labrea/conditional.py",
  "        for condition, result in self.cases:\n            checked.append(condition)",
  "        for condition, result in reversed(self.cases):\n            checked.append(condition)", ["C05"])
m("coalesce-returns-last", "labrea/coalesce.py",
  "                member.validate(options)\n                return getattr(member, method)(options)",
  "                member.validate(options)\n                result = getattr(member, method)(options)\n                ok = True", ["C05", "C06"], )
m("map-zip", "labrea/iterable.py",
  "            for values in itertools.product(", "            for values in zip(", ["C05"])
m("map-default-not-force", "labrea/iterable.py",
  "                    WithOptions(  # type: ignore\n                        self.evaluatable, self._create_option_set(*option_tuples)\n                    ),",
  "                    WithOptions(  # type: ignore\n                        self.evaluatable, self._create_option_set(*option_tuples), force=False\n                    ),", ["C05"])
m("withoptions-swapped", "labrea/option.py",
  "            mix(options, self.options)  # type: ignore\n            if self.force\n            else mix(self.options, options)  # type: ignore",
  "            mix(self.options, options)  # type: ignore\n            if self.force\n            else mix(options, self.options)  # type: ignore", ["C08", "C05"])
m("withoptions-shallow", "labrea/option.py",
  "            mix(options, self.options)  # type: ignore\n            if self.force",
  "            {**options, **self.options}  # type: ignore\n            if self.force", ["C08"])
m("with-options-new-cache", "labrea/dataset.py",
  "            self.overloads,\n            self.effects,\n            self.cache,\n            mix(self.options, options),  # type: ignore",
  "            self.overloads,\n            self.effects,\n            MemoryCache(),\n            mix(self.options, options),  # type: ignore", ["C02"])
m("with-options-drops-effects", "labrea/dataset.py",
  "            self.overloads,\n            self.effects,\n            self.cache,\n            mix(self.options, options),  # type: ignore",
  "            self.overloads,\n            [],\n            self.cache,\n            mix(self.options, options),  # type: ignore", ["C02", "C08", "C05"])
m("with-options-drops-callback", "labrea/dataset.py",
  "            mix(self.options, options),  # type: ignore\n            self.default_options,\n            self.callback,",
  "            mix(self.options, options),  # type: ignore\n            self.default_options,", ["C05", "C08"])
m("effects-outside-cache", "labrea/dataset.py",
  "        base = calculation if self._effects_disabled else computation\n",
  "        base = calculation\n        if not self._effects_disabled:\n            return WithDefaultOptions(WithOptions(Computation(cached(Logged(calculation, level=logging.INFO, name=self.__module__, msg=f\"Labrea: Evaluating {self!r}\"), self.cache), ChainedEffect(*self.effects)), self.options), self.default_options)\n", ["C02", "C16"])
m("cached-stores-on-failure", "labrea/cache.py",
  "        value = self.evaluatable.evaluate(options)\n\n        return CacheSetRequest",
  "        try:\n            value = self.evaluatable.evaluate(options)\n        except Exception:\n            CacheSetRequest(self.evaluatable, options, None, self.cache).run()\n            raise\n\n        return CacheSetRequest", ["C12", "C01"])
m("cached-ignores-get-failure", "labrea/cache.py",
  "            try:\n                return CacheGetRequest(self.evaluatable, options, self.cache).run()\n            except CacheGetFailure:\n                pass",
  "            return CacheGetRequest(self.evaluatable, options, self.cache).run()", ["C17"])
m("set-handler-no-fallback", "labrea/cache.py",
  "    try:\n        return request.cache.get(request.evaluatable, request.options)\n    except CacheGetFailure:\n        return request.value",
  "    return request.cache.get(request.evaluatable, request.options)", ["C17"])
m("cache-disabled-only-DISABLED", "labrea/cache.py",
  'return Option("LABREA.CACHE.DISABLED", Option("LABREA.CACHE.DISABLE", False))(',
  'return Option("LABREA.CACHE.DISABLED", False)(', ["C16"])
m("effects-option-ignored", "labrea/computation.py",
  "        if not _EFFECTS_DISABLED(options):\n            self.effect.transform(value, options)",
  "        self.effect.transform(value, options)", ["C16"])
m("logged-outside-cache", "labrea/dataset.py",
  "                cached(\n                    Logged(\n                        base,\n                        level=logging.INFO,\n                        name=self.__module__,\n                        msg=f\"Labrea: Evaluating {self!r}\",\n                    ),\n                    self.cache,\n                ),",
  "                Logged(\n                    cached(base, self.cache),\n                    level=logging.INFO,\n                    name=self.__module__,\n                    msg=f\"Labrea: Evaluating {self!r}\",\n                ),", ["C16", "C18"])
m("logging-option-ignored", "labrea/logging.py",
  '    if Option("LABREA.LOGGING.DISABLED", False)(request.options):\n        return _disabled_logging_handler(request)\n',
  "", ["C16"])
m("template-keys-skip-params", "labrea/template.py",
  "        keys = set().union(*(value.keys(options) for value in self.params.values()))\n        for key in find_template_keys(self.template):\n            if TEMPLATE_PARAM.match(key):\n                continue\n            try:",
  "        keys = set()\n        for key in find_template_keys(self.template):\n            if TEMPLATE_PARAM.match(key):\n                continue\n            try:", ["C09", "C01", "C03"])
m("option-keys-skip-templated-values", "labrea/option.py",
  "            keys = {self.key}.union(\n                *(Template(s).keys(options) for s in _templated_strings(value))\n            )",
  "            keys = {self.key}", ["C09", "C01", "C03"])
m("cached-validate-always", "labrea/cache.py",
  "        if not CacheExistsRequest(self.evaluatable, options, self.cache).run():\n            self.evaluatable.validate(options)",
  "        pass", ["C10", "C11"])
m("option-validate-ignores-default", "labrea/option.py",
  "        elif self.default is not MISSING:\n            self.default.validate(options)\n            if self.domain",
  "        elif self.default is not MISSING:\n            pass\n            if self.domain", ["C10", "C11"])
m("option-explain-omits-absent-key", "labrea/option.py",
  "        else:\n            keys = {self.key}\n\n        return keys | self._domain_explain(options)",
  "        else:\n            keys = set()\n\n        return keys | self._domain_explain(options)", ["C11"])
m("switch-explain-leaks-error", "labrea/conditional.py",
  "        try:\n            chosen = self._lookup(options)\n        except EvaluationError as e:\n            raise InsufficientInformationError(\n                \"Could not determine the switch branch\", self\n            ) from e",
  "        chosen = self._lookup(options)", ["C11"])
m("evaluate-request-no-rebase", "labrea/types.py",
  "        if e.source is request.evaluatable:\n            raise e\n        raise EvaluationError(\n            f\"Error during evaluation of {e.source}\", request.evaluatable\n        ) from e",
  "        raise e", ["C12"])
m("evaluate-request-no-cause", "labrea/types.py",
  '        raise EvaluationError("Error during evaluation", request.evaluatable) from e',
  '        raise EvaluationError("Error during evaluation", request.evaluatable) from None', ["C12"])
m("pipeline-add-multistep", "labrea/pipeline.py",
  "            return (self + other.rest) + other.tail", "            return Pipeline(other.tail, self)", ["C13"])
m("pipeline-evaluate-order", "labrea/pipeline.py",
  "        return lambda x: tail(rest(x))", "        return lambda x: rest(tail(x))", ["C13"])
m("subtract-swapped", "labrea/functions.py",
  "partial(lambda left, right: left - right, right=Evaluatable.ensure(__x)),",
  "partial(lambda left, right: right - left, right=Evaluatable.ensure(__x)),", ["C13"])
m("get-from-swapped", "labrea/functions.py",
  "        partial(_get, __x, default=default),\n        f\"get_from(", "        partial(_get, key=__x, default=default),\n        f\"get_from(", ["C13"])
m("runtime-exit-no-restore", "labrea/runtime.py",
  "            if previous is None:\n                # the thread had no runtime before the block: leave it without one\n                _RUNTIMES.pop(thread, None)\n            else:\n                _RUNTIMES[thread] = previous",
  "            pass", ["C14", "C15"])
m("runtime-handle-mutates", "labrea/runtime.py",
  "        elif isinstance(request, type) and callable(handler):\n            return Runtime({**self.handlers, request: handler})  # type: ignore",
  "        elif isinstance(request, type) and callable(handler):\n            self.handlers[request] = handler  # type: ignore\n            return self", ["C14"])
m("runtimes-keyed-by-constant", "labrea/runtime.py",
  "        return _RUNTIMES.setdefault(threading.current_thread(), Runtime())",
  "        return _RUNTIMES.setdefault(threading.main_thread(), Runtime())", ["C15", "C14"])
m("inherit-fresh-runtime", "labrea/runtime.py",
  "        _RUNTIMES[threading.current_thread()] = _RUNTIMES.get(parent, Runtime())",
  "        _RUNTIMES[threading.current_thread()] = Runtime()", ["C15"])
m("register-without-lock", "labrea/overload.py",
  "        with self._lock:\n            self.lookup = {**self.lookup, key: value}",
  "        self.lookup = {**self.lookup, key: value}", ["C15"])
m("set-dispatch-shares-lookup", "labrea/dataset.py",
  "            self.overloads.lookup.copy(),", "            {},", ["C07"])
m("callback-only-default", "labrea/dataset.py",
  "        calculation: Evaluatable[A] = self.overloads.apply(self.callback)",
  "        calculation: Evaluatable[A] = Overloaded(self.overloads.dispatch, self.overloads.lookup, self.overloads.default.apply(self.callback) if self.overloads.default is not MISSING else MISSING)",
  ["C07", "C05"])
m("option-no-type-validation", "labrea/option.py",
  "        TypeValidationRequest(value, self.type, options).run()\n", "", ["C18", "C04"])
m("coalesce-bypasses-request", "labrea/types.py",
  "        if not hasattr(cls.evaluate, \"__labrea_wrapper__\"):\n\n            def evaluate(self, options: Options) -> A:",
  "        if not hasattr(cls.evaluate, \"__labrea_wrapper__\") and cls.__name__ != \"Coalesce\":\n\n            def evaluate(self, options: Options) -> A:", ["C18"])
m("datasetclass-eq-by-members", "labrea/datasetclass.py",
  "            and self._repr_options == other._repr_options",
  "            and all(getattr(self, k) == getattr(other, k) for k in dir(self.__class__) if not k.startswith('_') and not callable(getattr(self, k)))", ["C19"])
m("datasetclass-keys-skip-inherited", "labrea/datasetclass.py",
  "        return {\n            key\n            for name in dir(cls)\n            if (\n                isinstance(getattr(cls, name), Evaluatable)\n                and not name.startswith(\"__\")\n            )\n            for key in getattr(cls, name).keys(options)\n        }",
  "        return {\n            key\n            for name in vars(cls.__mro__[1])\n            if (\n                isinstance(getattr(cls, name), Evaluatable)\n                and not name.startswith(\"__\")\n            )\n            for key in getattr(cls, name).keys(options)\n        }", ["C19"])
m("overloaded-getstate-keeps-lock", "labrea/overload.py",
  '        return {**self.__dict__, "_lock": id(self)}', "        return {**self.__dict__}", ["C20"])
m("overloaded-setstate-resets-lookup", "labrea/overload.py",
  "        self.__dict__.update(state)\n        self._lock", "        self.__dict__.update(state)\n        self.lookup = {}\n        self._lock", ["C20"])
m("implementation-registers-before-validating", "labrea/interface.py",
  "        # reject an incomplete implementation before registering anything\n        for key, member_list in members.items():\n            for member in member_list:\n                if member.is_abstract and overloads.get(key) is None:\n                    raise TypeError(f\"No implementation provided for {member}.\")\n\n        for key, member_list in members.items():\n            overload = overloads.get(key)\n",
  "        for key, member_list in members.items():\n            overload = overloads.get(key)\n            for member in member_list:\n                if member.is_abstract and overload is None:\n                    raise TypeError(f\"No implementation provided for {member}.\")\n", ["C07"])
m("namespace-drops-domain", "labrea/option.py",
  "                    type=value.type,\n                    domain=value.domain,\n                )\n            elif isinstance(value, _Auto):",
  "                    type=value.type,\n                )\n            elif isinstance(value, _Auto):", ["C04"])
m("option-set-mutates", "labrea/option.py",
  "        new: Dict[str, JSON] = {}\n        set_dotted_key(self.key, value, new)\n        return mix(options, new)  # type: ignore",
  "        set_dotted_key(self.key, value, options)  # type: ignore\n        return dict(options)", ["C04"])
m("computation-effects-before-value", "labrea/computation.py",
  "        value = self.evaluatable.evaluate(options)\n\n        if not _EFFECTS_DISABLED(options):\n            self.effect.transform(value, options)\n\n        return value",
  "        if not _EFFECTS_DISABLED(options):\n            self.effect.transform(None, options)\n        value = self.evaluatable.evaluate(options)\n\n        return value", ["C02"])
m("apply-func-before-source", "labrea/types.py",
  "        value = self.evaluatable.evaluate(options)\n        return self.func(options)(value)",
  "        func = self.func(options)\n        value = self.evaluatable.evaluate(options)\n        return func(value)", ["C06"])
m("iter-reversed", "labrea/iterable.py",
  "        return (evaluatable.evaluate(options) for evaluatable in self.evaluatables)",
  "        return (evaluatable.evaluate(options) for evaluatable in reversed(self.evaluatables))", ["C05"])
m("logeffect-logs-directly", "labrea/logging.py",
  "        return LogRequest(self.level, self.name, self.msg, options or {}).run()",
  "        return logging.getLogger(self.name).log(self.level, self.msg)", ["C18", "C16"])
m("logged-after-skips-request", "labrea/logging.py",
  "            value = self.evaluatable.evaluate(options)\n            self._request(options).run()\n            return value",
  "            value = self.evaluatable.evaluate(options)\n            logging.getLogger(self.name).log(self.level, self.msg)\n            return value", ["C18"])
m("log-function-wrong-level", "labrea/logging.py",
  "    return LogRequest(logging.WARNING, name, msg, options).run()",
  "    return LogRequest(logging.WARN + 10, name, msg, options).run()", ["C18"])
m("inherit-setdefault", "labrea/runtime.py",
  "        _RUNTIMES[threading.current_thread()] = _RUNTIMES.get(parent, Runtime())",
  "        _RUNTIMES.setdefault(threading.current_thread(), _RUNTIMES.get(parent, Runtime()))", ["C15"])
m("template-params-shared", "labrea/template.py",
  "        values = [str(val.evaluate(options)) for val in self.params.values()]",
  "        values = self.__dict__.setdefault('_v', [None] * len(self.params))\n        for _i, _val in enumerate(self.params.values()):\n            values[_i] = str(_val.evaluate(options))", ["C09"])
m("auto-build-memoised", "labrea/option.py",
  "        option: Evaluatable = self.option(key)\n\n        for tform in self.transformations:\n            option = option >> tform\n\n        option.__doc__ = self.doc or option.__doc__\n\n        return option",
  "        if hasattr(self, '_b'):\n            return self._b\n        option: Evaluatable = self.option(key)\n\n        for tform in self.transformations:\n            option = option >> tform\n\n        option.__doc__ = self.doc or option.__doc__\n        self._b = option\n        return option", ["C04"])


def apply(mut, dest):
    p = os.path.join(dest, mut["file"])
    s = open(p).read()
    if s.count(mut["old"]) != mut["count"]:
        return f"pattern found {s.count(mut['old'])}x (expected {mut['count']})"
    open(p, "w").write(s.replace(mut["old"], mut["new"]))
    return None


def run_one(mut, tier, skip_suite):
    dest = f"/tmp/mut_{mut['id']}"
    shutil.rmtree(dest, ignore_errors=True)
    os.makedirs(dest)
    subprocess.run(f"git -C /repo archive HEAD | tar -x -C {dest}", shell=True, check=True)
    res = {"id": mut["id"], "props": mut["props"], "caught_by": [], "missed_by": []}
    try:
        err = apply(mut, dest)
        if err:
            res["error"] = err
            return res
        c = subprocess.run(["/venv/bin/python", "-c", f"import sys; sys.path.insert(0, {dest!r}); import labrea"], capture_output=True, text=True)
        if c.returncode != 0:
            res["error"] = "does not import: " + c.stderr[-300:]
            return res
        if not skip_suite:
            t = subprocess.run(["/venv/bin/python", "-m", "pytest", "-q", "-p", "no:cacheprovider", "-x", "tests"], cwd=dest, capture_output=True, text=True,
                               env={**os.environ, "PYTHONPATH": dest})
            res["suite_green"] = t.returncode == 0
            if t.returncode != 0:
                res["suite_tail"] = t.stdout[-300:]
        for pid in mut["props"]:
            t0 = time.time()
            c = subprocess.run([os.path.join(HERE, "check"), pid, "--tier", tier, "--no-evidence", "--procs", "4"], capture_output=True, text=True,
                               env={**os.environ, "VERIF_REPO": dest}, cwd=HERE)
            caught = c.returncode == 1 and "VIOLATION property=" in c.stdout
            (res["caught_by"] if caught else res["missed_by"]).append(pid)
            res.setdefault("seconds", {})[pid] = round(time.time() - t0, 1)
            if c.returncode == 2:
                res.setdefault("harness_errors", []).append(pid + ": " + c.stdout[-400:])
    finally:
        shutil.rmtree(dest, ignore_errors=True)
    return res


def main():
    ap = argparse.ArgumentParser()
    ap.add_argument("--only")
    ap.add_argument("--tier", default="quick")
    ap.add_argument("--jobs", type=int, default=4)
    ap.add_argument("--skip-suite", action="store_true")
    a = ap.parse_args()
    muts = [x for x in M if not a.only or x["id"] in a.only.split(",")]
    out = []
    with cf.ThreadPoolExecutor(a.jobs) as ex:
        for r in ex.map(lambda mu: run_one(mu, a.tier, a.skip_suite), muts):
            out.append(r)
            status = "ERROR " + r["error"] if "error" in r else ("caught by " + ",".join(r["caught_by"]) if r["caught_by"] else "MISSED")
            extra = "" if r.get("suite_green", True) else "  [suite RED]"
            miss = f"  (missed by {','.join(r['missed_by'])})" if r["missed_by"] and r["caught_by"] else ""
            print(f"{r['id']:45s} {status}{miss}{extra}", flush=True)
    os.makedirs(os.path.join(HERE, "mutants"), exist_ok=True)
    path = os.path.join(HERE, "mutants", "results.json")
    prev = {}
    if os.path.exists(path) and a.only:
        prev = {r["id"]: r for r in json.load(open(path))}
    for r in out:
        prev[r["id"]] = r
    json.dump(list(prev.values()) if a.only else out, open(path, "w"), indent=1)
    missed = [r["id"] for r in out if not r.get("caught_by") and "error" not in r]
    print(f"{len(out)} mutants, {len(missed)} missed: {missed}")
    return 0


if __name__ == "__main__":
    sys.exit(main())
