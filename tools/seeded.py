#!/usr/bin/env python3
"""Run the checks against the independently written seeded changes in /verif/seeded/<id>/.

For each directory: export /repo HEAD to a scratch copy under /tmp, `git apply` patch.diff there, run the repository's own
suite (must stay green), run demo.py against the pristine export (must exit 0) and against the patched copy (must exit
non-zero), then run the targeted checks (meta.json "property", plus any in "also") with VERIF_REPO pointing at the copy.
Writes seeded/RESULTS.md and updates meta.json["ran"]. Scratch copies are removed afterwards.

usage: tools/seeded.py [--only id,id] [--tier quick|thorough] [--jobs 4]
"""
import argparse
import concurrent.futures as cf
import json
import os
import shutil
import subprocess
import sys
import time

HERE = os.path.dirname(os.path.dirname(os.path.abspath(__file__)))
SEEDED = os.path.join(HERE, "seeded")
PRISTINE = "/tmp/seeded_pristine"


def sh(cmd, **kw):
    return subprocess.run(cmd, shell=isinstance(cmd, str), capture_output=True, text=True, **kw)


def run_one(sid, tier, extra_props):
    d = os.path.join(SEEDED, sid)
    meta = json.load(open(os.path.join(d, "meta.json")))
    dest = f"/tmp/seed_{sid}"
    shutil.rmtree(dest, ignore_errors=True)
    os.makedirs(dest)
    sh(f"git -C /repo archive HEAD | tar -x -C {dest}")
    res = {"id": sid, "property": meta["property"]}
    try:
        a = sh(["git", "apply", "--unsafe-paths", f"--directory={dest}", os.path.join(d, "patch.diff")], cwd="/")
        if a.returncode != 0:
            a = sh(["patch", "-p1", "-i", os.path.join(d, "patch.diff")], cwd=dest)
        res["applies"] = a.returncode == 0
        if a.returncode != 0:
            res["error"] = (a.stderr or a.stdout)[-300:]
            return res
        t = sh(["/venv/bin/python", "-m", "pytest", "-q", "-p", "no:cacheprovider", "tests"], cwd=dest, env={**os.environ, "PYTHONPATH": dest})
        res["suite_green"] = t.returncode == 0
        demo = os.path.join(d, "demo.py")
        res["demo_pristine_rc"] = sh(["/venv/bin/python", demo, PRISTINE], timeout=300).returncode
        res["demo_patched_rc"] = sh(["/venv/bin/python", demo, dest], timeout=300).returncode
        res["checks"] = {}
        for pid in [meta["property"]] + [p for p in meta.get("also", []) + extra_props if p != meta["property"]]:
            t0 = time.time()
            c = sh([os.path.join(HERE, "check"), pid, "--tier", tier, "--no-evidence"], cwd=HERE, env={**os.environ, "VERIF_REPO": dest})
            caught = c.returncode == 1 and "VIOLATION property=" in c.stdout
            line = [l for l in c.stdout.splitlines() if l.startswith("  ")][:1]
            res["checks"][pid] = {"caught": caught, "rc": c.returncode, "seconds": round(time.time() - t0, 1), "tier": tier,
                                  "first_violation": (line[0][:300] if line else "")}
    finally:
        shutil.rmtree(dest, ignore_errors=True)
    return res


def main():
    ap = argparse.ArgumentParser()
    ap.add_argument("--only")
    ap.add_argument("--tier", default="quick")
    ap.add_argument("--jobs", type=int, default=4)
    ap.add_argument("--also", default="")
    ap.add_argument("--tag", default="", help="write results to seeded/results-<tag>.json only (e.g. a run at another VERIF_SEED)")
    a = ap.parse_args()
    ids = sorted(x for x in os.listdir(SEEDED) if os.path.isdir(os.path.join(SEEDED, x)) and os.path.exists(os.path.join(SEEDED, x, "meta.json")))
    if a.only:
        ids = [i for i in ids if i in a.only.split(",")]
    shutil.rmtree(PRISTINE, ignore_errors=True)
    os.makedirs(PRISTINE)
    sh(f"git -C /repo archive HEAD | tar -x -C {PRISTINE}")
    extra = [p for p in a.also.split(",") if p]
    results = []
    with cf.ThreadPoolExecutor(a.jobs) as ex:
        for r in ex.map(lambda i: run_one(i, a.tier, extra), ids):
            results.append(r)
            caught = [p for p, c in r.get("checks", {}).items() if c["caught"]]
            print(f"{r['id']:28s} applies={r.get('applies')} suite_green={r.get('suite_green')} demo={r.get('demo_pristine_rc')}/{r.get('demo_patched_rc')} "
                  f"caught_by={caught or 'NONE'} {r.get('error', '')}", flush=True)
    shutil.rmtree(PRISTINE, ignore_errors=True)
    if a.tag:
        json.dump(results, open(os.path.join(SEEDED, f"results-{a.tag}.json"), "w"), indent=1)
        return 0
    path = os.path.join(SEEDED, "results.json")
    prev = {}
    if os.path.exists(path):
        prev = {r["id"]: r for r in json.load(open(path))}
    for r in results:
        if r["id"] in prev and "checks" in prev[r["id"]] and "checks" in r:
            merged = dict(prev[r["id"]]["checks"])
            for p, c in r["checks"].items():
                # a fresh result replaces the stored one; only a catch obtained at another tier is kept next to a miss
                if c["caught"] or p not in merged or not merged[p]["caught"] or merged[p]["tier"] == c["tier"]:
                    merged[p] = c
            r["checks"] = merged
        prev[r["id"]] = r
    allr = [prev[k] for k in sorted(prev)]
    json.dump(allr, open(path, "w"), indent=1)
    with open(os.path.join(SEEDED, "RESULTS.md"), "w") as f:
        f.write("# Seeded changes: which checks catch which\n\n| id | property | suite green | demo (pristine/patched rc) | caught by (tier, seconds) | missed by |\n|---|---|---|---|---|---|\n")
        for r in allr:
            ch = r.get("checks", {})
            c = ", ".join(f"{p} ({v['tier']}, {v['seconds']}s)" for p, v in ch.items() if v["caught"]) or "-"
            mi = ", ".join(p for p, v in ch.items() if not v["caught"]) or "-"
            f.write(f"| {r['id']} | {r['property']} | {r.get('suite_green')} | {r.get('demo_pristine_rc')}/{r.get('demo_patched_rc')} | {c} | {mi} |\n")
    return 0


if __name__ == "__main__":
    sys.exit(main())
