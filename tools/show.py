#!/usr/bin/env python3
import json,sys
for f in sys.argv[1:]:
    r=json.load(open(f)); print(f); print(r['part'], r['relation'], r['detail'][:700]); print(json.dumps(r['case'])); print()
