#!/bin/bash
# usage: tools/stability.sh <first seed> <last seed> [tier]   -- every check must exit 0 on the unchanged tree
cd "$(dirname "$0")/.."
tier="${3:-quick}"
bad=0
for seed in $(seq "$1" "$2"); do
  for p in C01 C02 C03 C04 C05 C06 C07 C08 C09 C10 C11 C12 C13 C14 C15 C16 C17 C18 C19 C20; do
    out=$(VERIF_SEED=$seed ./check $p --tier "$tier" --no-evidence 2>&1); rc=$?
    if [ $rc -ne 0 ]; then bad=$((bad+1)); echo "SEED $seed $p rc=$rc"; echo "$out" | grep -v "^ \{6,\}" | tail -5 | cut -c1-1500; fi
  done
  echo "seed $seed done (bad so far: $bad)"
done
echo "TOTAL non-zero exits: $bad"
