"""Builder: spec -> real labrea objects, through the public API only.

Every call to build() gives objects with empty caches by construction; "fresh copy of the graph"
always means a second build() of the same spec.
"""
from __future__ import annotations

import copy
import functools

import labrea
import labrea.functions as F
from labrea import (Iter, Map, Option, Template, WithDefaultOptions, WithOptions, cached, case, coalesce, dataset,
                    evaluatable_dict, evaluatable_list, evaluatable_tuple, pipeline_step, switch)
from labrea import datasetclass
from labrea.application import FunctionApplication
from labrea.dataset import Dataset
from labrea.computation import Effect
from labrea.types import Value

from . import sem


def _make_fn(name, nparams, impl, first="p"):
    params = ", ".join(f"p{i}" for i in range(nparams))
    src = f"def {name}({params}):\n    return _impl({params})\n"
    ns = {"_impl": impl}
    exec(src, ns)
    return ns[name]


def _anyarg_step(argnode):
    """An Evaluatable domain that every value satisfies but that needs another option in order to be evaluated."""
    @pipeline_step
    def anyarg(x, arg=argnode):
        return True
    return anyarg


class Built:
    def __init__(self, spec, cache_factory=None):
        self.spec = spec
        self.log = []
        self.ds = {}
        self.cached_nodes = []
        self.derived = []   # (base dataset name, derived Dataset object)
        self.cache_factory = cache_factory
        self.caches = {}
        for d in spec["defs"]:
            self.ds[d["name"]] = self._dataset(d)
        self.root = self.node(spec["root"])

    # ---------------------------------------------------------------------------------------------
    def body_impl(self, name, kind, partial):
        log = self.log

        def impl(*args):
            # lazy inputs (Iter / Map) are consumed first, as a real body would before doing its work; a
            # failure while consuming them is a failure of the inputs, not a run of the body
            received = args
            args = tuple(sem.freeze(a) for a in args)
            log.append(("body", name))
            if partial and sem.PARTIAL_WHEN[partial["when"]](args):
                raise sem.EXC[partial["exc"]](f"partial:{name}")
            if kind == "tagmut":
                # a body that works in place on the containers it was given (sort / append / pop in real code): whatever
                # it was handed must be its own copy, never the caller's or a pre-set dictionary's object
                def scribble(a, depth=0):
                    if isinstance(a, list):
                        for x in a:
                            if depth < 2:
                                scribble(x, depth + 1)
                        a.append("scribbled-by-body")
                    elif isinstance(a, dict):
                        for x in list(a.values()):
                            if depth < 2:
                                scribble(x, depth + 1)
                        a["scribbled-by-body"] = 1
                for a in received:
                    scribble(a)
            if kind == "first":
                return args[0]
            return (name,) + args

        return impl

    def _step(self, s, kind):
        """A callback / effect step from a step spec {name, param?, raises?}."""
        log = self.log
        name = s["name"]
        raises = s.get("raises")

        def run(x, p=None, has_p=False):
            x = sem.freeze(x)
            if raises and (raises["when"] == "always" or (raises["when"] == "value_has_none" and "None" in sem.typed(x))):
                log.append((kind + "-raise", name))
                raise sem.EXC[raises["exc"]](f"{kind}:{name}")
            if kind == "cb":
                log.append(("cb", name))
                return ("cb", name, x, sem.freeze(p)) if has_p else ("cb", name, x)
            log.append(("effect", name, sem.typed(x), sem.typed(p) if has_p else None))
            return None

        if "param" in s:
            def fn(x, p):
                return run(x, p, True)
            fn.__defaults__ = (self.node(s["param"]),)
            fn.__name__ = name
            return pipeline_step(fn)

        def fn0(x):
            return run(x)
        fn0.__name__ = name
        return fn0

    def _effect(self, s):
        kind = s.get("kind", "fn")
        fn = self._step(s, "effect")
        if kind == "cls":
            class _E(Effect):
                def transform(self_, value, options=None):
                    fn(value)

                def validate(self_, options):
                    pass

                def explain(self_, options=None):
                    return set()

                def __repr__(self_):
                    return f"E({s['name']})"
            return _E()
        if kind == "step" and "param" not in s:
            return pipeline_step(fn)
        return fn

    def _dataset(self, d):
        name = d["name"]
        nodes = [self.node(p) for p in d.get("params", [])]
        f = _make_fn(name, len(nodes), self.body_impl(name, d["body"], d.get("partial")))
        kw = {}
        if "dispatch" in d:
            kw["dispatch"] = d["dispatch"] if isinstance(d["dispatch"], str) else self.node(d["dispatch"])
        if d.get("options"):
            kw["options"] = copy.deepcopy(d["options"])
        if d.get("default_options"):
            kw["default_options"] = copy.deepcopy(d["default_options"])
        if d.get("callback"):
            steps = [self._step(s, "cb") for s in d["callback"]]
            if len(steps) == 1:
                kw["callback"] = steps[0]
            else:
                pipe = steps[0] if hasattr(steps[0], "transform") else pipeline_step(steps[0])
                for s in steps[1:]:
                    pipe = pipe + s
                kw["callback"] = pipe
        if d.get("effects"):
            kw["effects"] = [self._effect(e) for e in d["effects"]]
        if d.get("abstract"):
            kw["abstract"] = True
        if self.cache_factory is not None and not d.get("nocache"):
            kw["cache"] = self.caches.setdefault(name, self.cache_factory(name))
        factory = dataset.nocache if d.get("nocache") else dataset
        form = d.get("form", "decorator")
        pnames = [f"p{i}" for i in range(len(nodes))]
        if d.get("shared_factory") and not kw:
            if getattr(self, "_memo_factory", None) is None:
                from labrea.cache import MemoryCache
                self._memo_factory = dataset(cache=MemoryCache)
            if form == "decorator":
                f.__defaults__ = tuple(nodes)
                ds = self._memo_factory(f)
            else:
                ds = self._memo_factory.where(**dict(zip(pnames, nodes)))(f)
        elif form == "decorator" or d.get("abstract"):
            f.__defaults__ = tuple(nodes)
            ds = factory(**kw)(f) if kw else factory(f)
        elif form == "explicit":
            ds = factory(f, defaults=dict(zip(pnames, nodes)), **kw)
        else:
            ds = factory(**kw).where(**dict(zip(pnames, nodes)))(f)
        self.ds[name] = ds   # visible to its own overloads (an overload may be computed from the dataset it overloads)
        for alias, impl in d.get("overloads", []):
            self.add_overload(ds, alias, impl)
        return ds

    def add_overload(self, ds, alias, impl):
        """Register an implementation on a live dataset the way user code would."""
        if isinstance(impl, dict) and impl.get("k") == "ovfn":
            g = _make_fn(impl["name"], len(impl["params"]), self.body_impl(impl["name"], impl["body"], impl.get("partial")))
            g.__defaults__ = tuple(self.node(p) for p in impl["params"])
            return ds.overload(sem.alias_arg(alias))(g)
        obj = self.node(impl)
        if isinstance(obj, Dataset):
            return ds.overload(sem.alias_arg(alias))(obj)
        for a in sem.alias_list(alias):
            ds.register(a, obj)
        return obj

    # ---------------------------------------------------------------------------------------------
    def node(self, n):
        k = n["k"]
        return getattr(self, "n_" + k)(n)

    def n_val(self, n):
        return Value(copy.deepcopy(n["v"]))

    def n_opt(self, n):
        kw = {}
        d = n.get("default")
        if d is not None:
            if d["t"] == "const":
                kw["default"] = copy.deepcopy(d["v"])
            elif d["t"] == "tmpl":
                kw["default"] = d["s"]
            elif d["t"] == "factory":
                log, key, v = self.log, n["key"], d["v"]

                raises = d.get("raises")

                def factory():
                    log.append(("factory", key))
                    if raises:
                        raise sem.EXC[raises](f"factory:{key}")
                    return copy.deepcopy(v)
                kw["default_factory"] = factory
            else:
                kw["default"] = self.node(d["n"])
        dom = n.get("domain")
        if dom is not None:
            if dom["t"] == "container":
                kw["domain"] = list(dom["v"])
            elif dom["t"] == "pred":
                kw["domain"] = sem.PREDS[dom["p"]]
            elif dom["p"] == "anyarg":
                kw["domain"] = _anyarg_step(self.node(dom["arg"]))
            else:
                kw["domain"] = getattr(F, dom["p"])(self.node(dom["arg"]))
        return Option(n["key"], **kw)

    def n_tmpl(self, n):
        return Template(n["s"], **{k: self.node(v) for k, v in n["params"].items()})

    def n_ref(self, n):
        return self.ds[n["name"]]

    def n_derived(self, n):
        base = self.ds[n["base"]]
        derived = getattr(base, n["op"])(copy.deepcopy(n["opts"]))
        # derived datasets carry no name of their own; give them their parent's so that log messages
        # (the only handle a LogRequest offers) identify the dataset
        derived.__qualname__ = base.__qualname__
        self.derived.append((n["base"], derived))
        return derived

    def n_apply(self, n):
        src = self.node(n["src"])
        fn = n["fn"]
        if "name" in fn:
            return src.apply(sem.APPLY[fn["name"]])

        def pair(x, p):
            return sem.step_pair(x, p)
        pair.__defaults__ = (self.node(fn["param"]),)
        return src >> pipeline_step(pair)

    def n_bind(self, n):
        table = {sem.typed(v): self.node(b) for v, b in n["table"]}
        other = self.node(n["else"])
        return self.node(n["src"]).bind(lambda v: table.get(sem.typed(v), other))

    def n_switch(self, n):
        disp = n["disp"] if isinstance(n["disp"], str) else self.node(n["disp"])
        lookup = {}
        for v, b in n["lookup"]:
            lookup[v] = self.node(b)
        if "default" in n:
            return switch(disp, lookup, self.node(n["default"]))
        return switch(disp, lookup)

    def _pred(self, p):
        if "arg" in p:
            return getattr(F, p["p"])(self.node(p["arg"]))
        return sem.PREDS[p["p"]]

    def n_case(self, n):
        c = case(self.node(n["disp"]))
        for p, b in n["cases"]:
            c = c.when(self._pred(p), self.node(b))
        if "default" in n:
            c = c.otherwise(self.node(n["default"]))
        return c

    def n_coalesce(self, n):
        return coalesce(*[self.node(m) for m in n["members"]])

    def n_list(self, n):
        return evaluatable_list(*[self.node(i) for i in n["items"]])

    def n_tuple(self, n):
        return evaluatable_tuple(*[self.node(i) for i in n["items"]])

    def n_iter(self, n):
        return Iter(*[self.node(i) for i in n["items"]])

    def n_dclass(self, n):
        own, ann, inherited = {}, {}, {}
        for m in n["members"]:
            target = inherited if m["inherited"] else own
            target[m["name"]] = self.node(m["node"])
            if m["annotated"] and not m["inherited"]:
                ann[m["name"]] = object
        if ann:
            own["__annotations__"] = ann
        base = type("GeneratedBase", (), inherited) if inherited else object
        cls = type("Generated", (base,), own)
        cls.__vlib_members__ = [m["name"] for m in n["members"]]
        import json as _json
        cls.__vlib_key__ = _json.dumps(n, sort_keys=True, default=repr)
        return datasetclass(cls)

    def n_dict(self, n):
        return evaluatable_dict({k: self.node(v) for k, v in n["items"]})

    def n_fapp(self, n):
        def fapp(*a, **kw):
            return ("fapp", tuple(sem.freeze(x) for x in a), tuple(sorted((k, sem.typed(v)) for k, v in kw.items())))
        func = fapp
        if "fn" in n:
            def other(*a, **kw):
                return ("fapp-alt",) + fapp(*a, **kw)[1:]
            func = self.node(n["fn"]).apply(lambda v: fapp if sem.pick_first(v) else other)
        return FunctionApplication(func, *[self.node(a) for a in n["args"]], **{k: self.node(v) for k, v in n["kwargs"].items()})

    def n_map(self, n):
        m = Map(self.node(n["body"]), {k: self.node(v) for k, v in n["iters"]})
        how = n["as"]
        if how == "raw":
            return m
        if how == "values_raw":
            return m.values
        if how == "list":
            return m.apply(list)
        return m.values.apply(list)

    def n_with(self, n):
        body = self.node(n["body"])
        if n["force"]:
            return WithOptions(body, copy.deepcopy(n["opts"]))
        return WithDefaultOptions(body, copy.deepcopy(n["opts"]))

    def n_cached(self, n):
        if self.cache_factory is not None:
            c = cached(self.node(n["body"]), self.cache_factory(f"cached#{len(self.cached_nodes)}"))
        else:
            c = cached(self.node(n["body"]))
        self.cached_nodes.append(c)
        return c

    def n_allopts(self, n):
        return labrea.AllOptions

    # ---------------------------------------------------------------------------------------------
    def bodies_run(self, since=0):
        return [e[1] for e in self.log[since:] if e[0] == "body"]


def build(spec, **kw):
    return Built(spec, **kw)


# ---- outcomes ---------------------------------------------------------------------------------------
class Outcome:
    """Materialised result of an operation: ok + typed value, or failure descriptor."""

    def __init__(self, ok, value=None, fail=None, exc=None, raw=False):
        self.ok, self.value, self.fail, self.exc, self.raw = ok, value, fail, exc, raw

    def key(self):
        return ("ok", self.value) if self.ok else ("fail", self.fail)

    def __repr__(self):
        return f"OK {self.value}" if self.ok else f"FAIL {self.fail}{' RAW' if self.raw else ''}"


def classify(e):
    """Failure descriptor of an exception raised by labrea: walk generic EvaluationError wrappers down
    to the first specific error."""
    from labrea.conditional import CaseWhenError, SwitchError
    from labrea.exceptions import EvaluationError, KeyNotFoundError
    cur = e
    seen = 0
    while type(cur) is EvaluationError and cur.__cause__ is not None and seen < 200:
        cur = cur.__cause__
        seen += 1
    if isinstance(cur, KeyNotFoundError):
        return ("missing", cur.key)
    if isinstance(cur, SwitchError):
        return ("switch",)
    if isinstance(cur, CaseWhenError):
        return ("case",)
    if isinstance(cur, ValueError) and _from_domain(cur):
        return ("domain",)
    return ("exc", type(cur).__name__)


def _from_domain(exc):
    tb = exc.__traceback__
    last = None
    while tb is not None:
        last = tb
        tb = tb.tb_next
    return last is not None and last.tb_frame.f_code.co_name == "_enforce_domain"


def run(op, *args):
    """Run op(*args), materialise lazy results, return an Outcome."""
    from labrea.exceptions import EvaluationError
    try:
        v = op(*args)
        return Outcome(True, sem.typed(v))
    except EvaluationError as e:
        return Outcome(False, fail=classify(e), exc=e)
    except Exception as e:  # raw exception escaping labrea
        return Outcome(False, fail=classify(e), exc=e, raw=True)


# ---- observation helpers (public runtime API only) ---------------------------------------------------
import re as _re

_DS_NAME = _re.compile(r"^Labrea: Evaluating <(?:Abstract)?Dataset ([A-Za-z0-9_.<>]+)>")
_FA_NAME = _re.compile(r"FunctionApplication\((\w+),")


def log_capture(built):
    """A runtime (context manager) whose LogRequest handler records ('log', dataset name, level) in the
    build's execution log instead of emitting."""
    from labrea import runtime
    from labrea.logging import LogRequest

    def handler(request):
        m = _DS_NAME.search(request.msg)
        if m:
            name = m.group(1).split(".")[-1]
        else:
            # datasets derived with with_options()/with_default_options() carry no name: their repr spells
            # out the overloads; the default implementation names the dataset
            name = "?"
        built.log.append(("log", name, request.level))

    return runtime.handle(LogRequest, handler)
