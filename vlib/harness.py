"""Runner: ./check <ID> [--tier quick|thorough] [--replay FILE] [--seeds N]

Exit 0  property held on everything explored (KNOWN-FINDING lines allowed)
Exit 1  + line "VIOLATION property=<ID> replay=<path>"  for every unlisted violation
Exit 2  harness error (never prints VIOLATION)
"""
from __future__ import annotations

import argparse
import collections
import hashlib
import importlib
import json
import multiprocessing as mp
import os
import sys
import time
import traceback

HERE = os.path.dirname(os.path.dirname(os.path.abspath(__file__)))
NPROC = {"quick": 8, "thorough": 16}


# ----------------------------------------------------------------------------------------------
class Violation(Exception):
    """The property was observed not to hold for the current case."""

    def __init__(self, relation: str, detail: str = ""):
        super().__init__(f"{relation}: {detail}")
        self.relation = relation
        self.detail = detail


class _StopEarly(BaseException):
    pass


def canon(x) -> str:
    return json.dumps(x, sort_keys=True, default=repr, separators=(",", ":"))


def chash(x) -> str:
    return hashlib.sha1(canon(x).encode()).hexdigest()[:14]


class Ctx:
    """Per-shard bookkeeping: what was generated, what was non-trivial, samples."""

    def __init__(self, pid, tier, seed, shard=0, nshards=1, flags=()):
        self.pid, self.tier, self.seed, self.shard, self.nshards = pid, tier, seed, shard, nshards
        self.flags = set(flags)  # exclusions switched on by open known findings
        self.evaluations = 0
        self.labels = collections.Counter()
        self.nontrivial = set()
        self.excluded = collections.Counter()
        self.samples = []
        self.part_counts = collections.Counter()
        self.extras = {}
        self.exhaustive = {}
        self.current_part = None

    def done(self, case, nontrivial, labels=(), sample_note=None):
        self.evaluations += 1
        self.part_counts[self.current_part] += 1
        for lab in labels:
            self.labels[lab] += 1
        if nontrivial:
            h = chash(case)
            new = h not in self.nontrivial
            self.nontrivial.add(h)
            if new and len(self.samples) < 3 and self.shard == 0:
                s = {"part": self.current_part, "case": case, "nontrivial": True}
                if sample_note is not None:
                    s["observed"] = sample_note
                if len(canon(s)) < 6000:
                    self.samples.append(s)
        elif self.shard == 0 and not any(not s["nontrivial"] for s in self.samples):
            s = {"part": self.current_part, "case": case, "nontrivial": False}
            if len(canon(s)) < 6000:
                self.samples.append(s)

    def exclude(self, what):
        self.excluded[what] += 1

    def summary(self):
        return {
            "evaluations": self.evaluations,
            "labels": dict(self.labels),
            "nontrivial": sorted(self.nontrivial),
            "excluded": dict(self.excluded),
            "samples": self.samples,
            "part_counts": dict(self.part_counts),
            "extras": self.extras,
            "exhaustive": self.exhaustive,
        }


class Part:
    """One generated sub-check of a property.

    strategy(ctx)            -> hypothesis strategy of JSON-serialisable cases   (kind 'hyp')
    enumerate(ctx)           -> iterator of cases for this shard                 (kind 'enum')
    check(case, ctx)         -> raises Violation; must call ctx.done(...)
    budget                   -> {'quick': n per shard, 'thorough': n per shard}
    """

    def __init__(self, name, check, strategy=None, enumerate=None, budget=None, shards=None):
        self.name, self.check, self.strategy, self.enumerate = name, check, strategy, enumerate
        self.budget = budget or {"quick": 100, "thorough": 1000}
        self.shards = shards  # optional override {'quick': n, 'thorough': n}


# ----------------------------------------------------------------------------------------------
def _load(pid):
    return importlib.import_module(f"vlib.props.{pid.lower()}")


def _run_part_hyp(part, ctx, deadline_at):
    import hypothesis
    from hypothesis import HealthCheck, Phase, given, settings

    n = part.budget[ctx.tier]
    failures = []  # (size, case, relation, detail)
    first_fail_at = [None]
    shrink_budget = 15.0 if ctx.tier == "quick" else 120.0
    stopped = [False]

    def body(case):
        now = time.time()
        if first_fail_at[0] is not None and now - first_fail_at[0] > shrink_budget:
            raise _StopEarly()
        if first_fail_at[0] is None and now > deadline_at:
            stopped[0] = True
            raise _StopEarly()
        try:
            call_check(part, case, ctx)
        except Violation as v:
            failures.append((len(canon(case)), case, v.relation, v.detail))
            if first_fail_at[0] is None:
                first_fail_at[0] = now
            raise

    test = given(part.strategy(ctx))(body)
    test = settings(
        max_examples=n,
        database=None,
        deadline=None,
        derandomize=False,
        report_multiple_bugs=False,
        phases=(Phase.generate, Phase.shrink),
        suppress_health_check=[HealthCheck.too_slow, HealthCheck.data_too_large],
    )(test)
    sd = (ctx.seed * 1000 + ctx.shard) * 64 + (int(chash(part.name), 16) % 64)
    test = hypothesis.seed(sd)(test)
    try:
        test()
    except _StopEarly:
        pass
    except Violation:
        pass
    except Exception:
        # Hypothesis reports a failure that does not reproduce on its own replay as "flaky" (an exception group). Where a
        # violation depends on something outside the case (which thread identifier the OS hands out, timing under load),
        # the violation that was observed and recorded still stands; anything else is a harness error.
        if not failures:
            raise
    if failures:
        failures.sort(key=lambda f: f[0])
        _, case, rel, det = failures[0]
        try:
            small = reduce_case(part, case, rel, ctx, 20.0 if ctx.tier == "quick" else 90.0)
            if small is not case:
                try:
                    call_check(part, small, Ctx(ctx.pid, ctx.tier, ctx.seed, flags=ctx.flags))
                except Violation as v:
                    case, det = small, v.detail
                except BaseException:
                    pass
        except BaseException:
            pass
        return {"part": part.name, "relation": rel, "detail": det, "case": case}, stopped[0]
    return None, stopped[0]


class _CaseTimeout(BaseException):
    """Raised by the per-case watchdog (SIGALRM) inside whatever the case is doing."""


CASE_TIME_LIMIT = {"quick": 60, "thorough": 180}   # seconds; ordinary cases take milliseconds


def _alarm(signum, frame):
    raise _CaseTimeout()


def call_check(part, case, ctx):
    """Run one case under a watchdog. A case that does not finish within CASE_TIME_LIMIT (a changed library may loop or blow
    up exponentially on some generated program) is abandoned and counted as inconclusive - a time limit never decides a
    property - so that no check can hang."""
    import signal
    import threading
    armed = False
    if threading.current_thread() is threading.main_thread() and hasattr(signal, "setitimer"):
        try:
            signal.signal(signal.SIGALRM, _alarm)
            signal.setitimer(signal.ITIMER_REAL, CASE_TIME_LIMIT.get(getattr(ctx, "tier", "quick"), 60))
            armed = True
        except Exception:
            armed = False
    try:
        return _call_check(part, case, ctx)
    except _CaseTimeout:
        try:
            ctx.exclude("case-timed-out-inconclusive")
        except Exception:
            pass
        return None
    finally:
        if armed:
            signal.setitimer(signal.ITIMER_REAL, 0)


def _call_check(part, case, ctx):
    """Run one case. An exception that is neither a Violation nor raised by the harness's own code but comes out of the
    labrea package itself while a generated (valid) program is being built or driven outside the checks' guarded calls
    is a behaviour the reference never allows (construction, registration and reflection of a valid program succeed on
    the reference): it is reported as a violation, not as a harness error. Exceptions whose innermost frame is harness
    code stay harness errors."""
    try:
        return part.check(case, ctx)
    except Violation:
        raise
    except Exception as e:
        import traceback
        import labrea
        pkg = os.path.dirname(os.path.abspath(labrea.__file__)) + os.sep
        frames = traceback.extract_tb(e.__traceback__)
        own = [f for f in frames if os.path.abspath(f.filename).startswith(pkg) or os.path.abspath(f.filename).startswith(HERE + os.sep)]
        if own and os.path.abspath(own[-1].filename).startswith(pkg):
            inner = own[-1]
            outer = [f for f in frames if os.path.abspath(f.filename).startswith(HERE + os.sep)]
            where = f"{os.path.basename(outer[-1].filename)}:{outer[-1].name}" if outer else "?"
            raise Violation(f"labrea-raised-on-valid-program:{type(e).__name__}",
                            f"{type(e).__name__}: {e} raised from labrea/{os.path.relpath(inner.filename, pkg)}:{inner.lineno} ({inner.name}) "
                            f"while the harness was in {where}: on the reference every generated program can be built and driven") from e
        raise


# ---- spec-level reducer (runs after Hypothesis; keeps the same relation failing) ----------------------------
def _candidates(x, path=()):
    """Yield (path, replacement) pairs describing one local simplification of the JSON value x."""
    if isinstance(x, list):
        for i in range(len(x)):
            yield path, x[:i] + x[i + 1:]
        for i, v in enumerate(x):
            yield from _candidates(v, path + (i,))
    elif isinstance(x, dict):
        if "k" in x and x.get("k") not in ("val",):
            yield path, {"k": "val", "v": None}
            for key, v in x.items():
                if isinstance(v, dict) and "k" in v:
                    yield path, v
                if isinstance(v, list):
                    for it in v:
                        if isinstance(it, dict) and "k" in it:
                            yield path, it
                        if isinstance(it, list):
                            for it2 in it:
                                if isinstance(it2, dict) and "k" in it2:
                                    yield path, it2
            for key in [k for k in x if k not in ("k", "key", "name", "body", "src", "disp", "items", "members", "lookup", "cases", "iters", "as", "fn", "s", "params", "v", "base", "op", "opts", "force", "table", "else", "args", "kwargs")]:
                y = dict(x)
                del y[key]
                yield path, y
        elif "k" not in x:
            for key in list(x):
                y = dict(x)
                del y[key]
                yield path, y
        for key, v in x.items():
            yield from _candidates(v, path + (key,))


def _replace(x, path, new):
    if not path:
        return new
    if isinstance(x, list):
        y = list(x)
        y[path[0]] = _replace(x[path[0]], path[1:], new)
        return y
    y = dict(x)
    y[path[0]] = _replace(x[path[0]], path[1:], new)
    return y


def reduce_case(part, case, relation, ctx, budget_s):
    """Greedy structural reduction of a failing case under a time budget."""
    t_end = time.time() + budget_s

    def fails(c):
        try:
            sub = Ctx(ctx.pid, ctx.tier, ctx.seed, flags=ctx.flags)
            sub.current_part = part.name
            call_check(part, c, sub)
            return False
        except Violation as v:
            return v.relation == relation
        except BaseException:
            return False

    best = case
    size = len(canon(best))
    improved = True
    while improved and time.time() < t_end:
        improved = False
        for path, new in _candidates(best):
            if time.time() > t_end:
                break
            cand = _replace(best, path, new)
            n = len(canon(cand))
            if n >= size:
                continue
            if fails(cand):
                best, size, improved = cand, n, True
                break
    return best


def _run_part_enum(part, ctx, deadline_at):
    stopped = False
    cap = part.budget[ctx.tier]
    k = 0
    for case in part.enumerate(ctx):
        if cap is not None and k >= cap:
            break
        if time.time() > deadline_at:
            stopped = True
            break
        k += 1
        try:
            call_check(part, case, ctx)
        except Violation as v:
            return {"part": part.name, "relation": v.relation, "detail": v.detail, "case": case}, stopped
    return None, stopped


def run_shard(args):
    pid, tier, seed, shard, nshards, flags, wall_cap, only = args
    try:
        import faulthandler
        import signal
        faulthandler.register(signal.SIGUSR1, all_threads=True)     # kill -USR1 <shard pid> prints where it is
    except Exception:
        pass
    try:
        mod = _load(pid)
        ctx = Ctx(pid, tier, seed, shard, nshards, flags)
        violations = []
        stopped_any = False
        t_end = time.time() + wall_cap
        for part in mod.PARTS:
            if only and part.name not in only:
                continue
            ctx.current_part = part.name
            if part.strategy is not None:
                v, stopped = _run_part_hyp(part, ctx, t_end)
            else:
                v, stopped = _run_part_enum(part, ctx, t_end)
            stopped_any |= stopped
            if v:
                violations.append(v)
        out = ctx.summary()
        out["violations"] = violations
        out["stopped_early"] = stopped_any
        return out
    except BaseException:
        return {"harness_error": traceback.format_exc()}


# ----------------------------------------------------------------------------------------------
def _known_findings():
    p = os.path.join(HERE, "known_findings.json")
    if not os.path.exists(p):
        return []
    with open(p) as f:
        return json.load(f)["findings"]


def _find_part(mod, name):
    for p in mod.PARTS:
        if p.name == name:
            return p
    raise KeyError(name)


def _replay_case(mod, rec, ctx):
    part = _find_part(mod, rec["part"])
    ctx.current_part = part.name
    call_check(part, rec["case"], ctx)


def _write_replay(pid, v):
    os.makedirs(os.path.join(HERE, "replays"), exist_ok=True)
    rec = {"property": pid, "part": v["part"], "relation": v["relation"], "detail": v["detail"], "case": v["case"]}
    path = os.path.join(HERE, "replays", f"{pid}-{chash(rec['case'])}.json")
    with open(path, "w") as f:
        json.dump(rec, f, indent=1, default=repr)
    return path


def main(argv=None):
    ap = argparse.ArgumentParser()
    ap.add_argument("pid")
    ap.add_argument("--tier", default=os.environ.get("VERIF_TIER", "quick"), choices=["quick", "thorough"])
    ap.add_argument("--replay")
    ap.add_argument("--part", action="append")
    ap.add_argument("--procs", type=int)
    ap.add_argument("--no-evidence", action="store_true")
    ap.add_argument("--all", action="store_true", help="triage: report every shard's violation, not one per bucket")
    a = ap.parse_args(argv)
    pid = a.pid.upper()
    seed = int(os.environ.get("VERIF_SEED", "1") or 1)
    t0 = time.time()
    try:
        mod = _load(pid)
    except Exception:
        traceback.print_exc()
        print("HARNESS-ERROR: cannot load property module")
        return 2

    # ---- replay of a single file -------------------------------------------------------------
    if a.replay:
        with open(a.replay) as f:
            rec = json.load(f)
        # exclusions of open known findings apply to replays as well
        flags = set()
        for kf in _known_findings():
            if pid in kf["properties"] and kf["status"] == "open" and kf["witness"].get(pid) is not None:
                try:
                    _replay_case(mod, kf["witness"][pid], Ctx(pid, "quick", seed))
                except Violation:
                    flags.update(kf.get("excludes", []))
                except Exception:
                    pass
        ctx = Ctx(pid, "quick", seed, flags=flags)
        try:
            _replay_case(mod, rec, ctx)
        except Violation as v:
            print(f"replay: {v.relation}: {v.detail}")
            print(f"VIOLATION property={pid} replay={a.replay}")
            return 1
        except Exception:
            traceback.print_exc()
            print("HARNESS-ERROR: replay raised")
            return 2
        print("replay: property holds on this case")
        return 0

    violations = []
    flags = set()
    known_lines = []
    # ---- known findings: open ones print KNOWN-FINDING and exclude their shape ----------------
    try:
        for kf in _known_findings():
            if pid not in kf["properties"]:
                continue
            wit = kf["witness"].get(pid)
            if wit is None:
                continue
            ctx = Ctx(pid, "quick", seed)
            try:
                _replay_case(mod, wit, ctx)
                failed = None
            except Violation as v:
                failed = v
            if kf["status"] == "open":
                if failed is not None:
                    known_lines.append(f"KNOWN-FINDING: property={pid} {kf['id']} {kf['what']}")
                    for fl in kf.get("excludes", []):
                        flags.add(fl)
            else:  # fixed: suppresses nothing
                if failed is not None:
                    violations.append({"part": wit["part"], "relation": failed.relation + "@" + kf["id"],
                                       "detail": f"fixed finding {kf['id']} is back: {failed.detail}", "case": wit["case"]})
        # ---- regression tier ------------------------------------------------------------------
        rdir = os.path.join(HERE, "regressions", pid)
        nreg = 0
        if os.path.isdir(rdir):
            for fn in sorted(os.listdir(rdir)):
                if not fn.endswith(".json"):
                    continue
                with open(os.path.join(rdir, fn)) as f:
                    rec = json.load(f)
                ctx = Ctx(pid, "quick", seed, flags=flags)
                nreg += 1
                try:
                    _replay_case(mod, rec, ctx)
                except Violation as v:
                    violations.append({"part": rec["part"], "relation": v.relation + "@" + fn,
                                       "detail": f"regression {fn}: {v.detail}", "case": rec["case"]})
    except Exception:
        traceback.print_exc()
        print("HARNESS-ERROR: known-finding / regression tier raised")
        return 2
    for line in known_lines:
        print(line)

    # ---- generated search ------------------------------------------------------------------------
    nshards = a.procs or getattr(mod, "NPROC", NPROC)[a.tier]
    wall_cap = getattr(mod, "WALL_CAP", {"quick": 75, "thorough": 900})[a.tier]
    jobs = [(pid, a.tier, seed, i, nshards, sorted(flags), wall_cap, a.part) for i in range(nshards)]
    if nshards == 1:
        results = [run_shard(jobs[0])]
    else:
        with mp.get_context("fork").Pool(nshards) as pool:
            results = pool.map(run_shard, jobs, chunksize=1)
    for r in results:
        if "harness_error" in r:
            print(r["harness_error"])
            print("HARNESS-ERROR: shard raised")
            return 2

    total = 0
    labels = collections.Counter()
    nontriv = set()
    excluded = collections.Counter()
    samples = []
    part_counts = collections.Counter()
    extras = {}
    exhaustive = {}
    stopped = False
    for r in results:
        total += r["evaluations"]
        labels.update(r["labels"])
        nontriv.update(r["nontrivial"])
        excluded.update(r["excluded"])
        part_counts.update(r["part_counts"])
        for s in r["samples"]:
            if len(samples) < 5:
                samples.append(s)
        for k, v in r["extras"].items():
            if isinstance(v, (int, float)):
                extras[k] = extras.get(k, 0) + v
            elif isinstance(v, list):
                extras.setdefault(k, [])
                for x in v:
                    if x not in extras[k]:
                        extras[k].append(x)
            else:
                extras[k] = v
        for k, v in r["exhaustive"].items():
            exhaustive[k] = exhaustive.get(k, 0) + v
        stopped |= r["stopped_early"]
        violations.extend(r["violations"])

    # bucket violations by (part, relation); report smallest of each bucket
    buckets = {}
    for v in violations:
        key = (v["part"], v["relation"]) if not a.all else (v["part"], v["relation"], chash(v["case"]))
        if key not in buckets or len(canon(v["case"])) < len(canon(buckets[key]["case"])):
            buckets[key] = v
    for v in buckets.values():
        path = _write_replay(pid, v)
        print(f"  {v['part']} / {v['relation']}: {v['detail'][:600]}")
        print(f"VIOLATION property={pid} replay={path}")

    wall = time.time() - t0
    if not a.no_evidence and not a.part:
        cov = {
            "evaluations": total,
            "distinct_nontrivial": len(nontriv),
            "rule": mod.RULE,
            "samples": samples,
            "class_distribution": dict(sorted(labels.items())),
            "cases_per_part": dict(part_counts),
            "excluded_by_known_findings": dict(excluded),
            "regression_cases_replayed": nreg,
            "shards": nshards,
            "stopped_early_by_wall_cap": stopped,
            "exhaustive": bool(exhaustive) and getattr(mod, "EXHAUSTIVE_ALL", False),
            "exhaustive_subspaces": exhaustive,
        }
        cov.update(extras)
        ev = {
            "property_id": pid,
            "tier": a.tier,
            "seed": seed,
            "level": mod.LEVEL,
            "coverage": cov,
            "assumptions": mod.ASSUMPTIONS,
            "wall_s": round(wall, 2),
            "violations": len(buckets),
            "known_findings_reported": known_lines,
        }
        os.makedirs(os.path.join(HERE, "evidence"), exist_ok=True)
        with open(os.path.join(HERE, "evidence", f"{pid}.json"), "w") as f:
            json.dump(ev, f, indent=1, default=repr)
    print(f"{pid} {a.tier}: {total} cases, {len(nontriv)} distinct non-trivial, {len(buckets)} violation bucket(s), "
          f"{wall:.1f}s{' (stopped early by wall cap)' if stopped else ''}")
    if buckets:
        return 1
    if total == 0 or len(nontriv) < 2:
        print("HARNESS-ERROR: generator produced no non-trivial cases")
        return 2
    return 0


def entry():
    try:
        rc = main()
    except SystemExit:
        raise
    except BaseException:
        traceback.print_exc()
        print("HARNESS-ERROR: runner raised")
        rc = 2
    sys.exit(rc)
