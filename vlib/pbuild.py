"""Builder variant whose every callable is an importable module-level function (or a functools.partial of one),
so that the built graph can be pickled."""
from __future__ import annotations

import copy
import functools

from labrea import Option, pipeline_step
from labrea.application import FunctionApplication
from labrea.dataset import Dataset, dataset

from . import pmod, sem
from .build import Built


class PBuilt(Built):
    def __init__(self, spec, **kw):
        pmod.LOG.clear()
        super().__init__(spec, **kw)
        self.log = pmod.LOG

    def _fn(self, d, nodes, keyword_defaults):
        base = pmod.BODIES[len(nodes)]
        if keyword_defaults:
            return functools.partial(base, d["name"], d["body"], d.get("partial"), **{f"p{i}": n for i, n in enumerate(nodes)})
        return functools.partial(base, d["name"], d["body"], d.get("partial"))

    def _step(self, s, kind):
        name = s["name"]
        if "param" in s:
            fn = functools.partial(pmod.cb_param if kind == "cb" else pmod.eff_param, name, p=self.node(s["param"]))
            # pipeline_step inspects the signature: first parameter without default, the rest with
            return pipeline_step(fn)
        return functools.partial(pmod.cb_plain if kind == "cb" else pmod.eff_plain, name)

    def _effect(self, s):
        kind = s.get("kind", "fn")
        if kind == "cls":
            return pmod.ModEffect(s["name"])
        fn = self._step(s, "effect")
        if kind == "step" and "param" not in s:
            return pipeline_step(fn)
        return fn

    def _dataset(self, d):
        name = d["name"]
        nodes = [self.node(p) for p in d.get("params", [])]
        f = self._fn(d, nodes, False)
        kw = {}
        if "dispatch" in d:
            kw["dispatch"] = d["dispatch"] if isinstance(d["dispatch"], str) else self.node(d["dispatch"])
        if d.get("options"):
            kw["options"] = copy.deepcopy(d["options"])
        if d.get("default_options"):
            kw["default_options"] = copy.deepcopy(d["default_options"])
        if d.get("callback"):
            steps = [self._step(s, "cb") for s in d["callback"]]
            if len(steps) == 1:
                kw["callback"] = steps[0]
            else:
                pipe = steps[0] if hasattr(steps[0], "transform") else pipeline_step(steps[0])
                for s in steps[1:]:
                    pipe = pipe + s
                kw["callback"] = pipe
        if d.get("effects"):
            kw["effects"] = [self._effect(e) for e in d["effects"]]
        if d.get("abstract"):
            kw["abstract"] = True
        factory = dataset.nocache if d.get("nocache") else dataset
        pnames = [f"p{i}" for i in range(len(nodes))]
        if d.get("form") == "where" and not d.get("abstract"):
            ds = factory(**kw).where(**dict(zip(pnames, nodes)))(f)
        else:
            ds = factory(f, defaults=dict(zip(pnames, nodes)), **kw)
        ds.__qualname__ = name
        self.ds[name] = ds
        for alias, impl in d.get("overloads", []):
            if isinstance(impl, dict) and impl.get("k") == "ovfn":
                g = self._fn(impl, [self.node(p) for p in impl["params"]], True)
                ov = ds.overload(sem.alias_arg(alias))(g)
                ov.__qualname__ = impl["name"]
            else:
                obj = self.node(impl)
                if isinstance(obj, Dataset):
                    ds.overload(sem.alias_arg(alias))(obj)
                else:
                    for a in sem.alias_list(alias):
                        ds.register(a, obj)
        return ds

    def n_opt(self, n):
        kw = {}
        d = n.get("default")
        if d is not None:
            if d["t"] == "const":
                kw["default"] = copy.deepcopy(d["v"])
            elif d["t"] == "tmpl":
                kw["default"] = d["s"]
            elif d["t"] == "factory":
                kw["default_factory"] = functools.partial(pmod.factory, n["key"], d["v"])
            else:
                kw["default"] = self.node(d["n"])
        dom = n.get("domain")
        if dom is not None:
            if dom["t"] == "container":
                kw["domain"] = list(dom["v"])
            elif dom["t"] == "pred":
                kw["domain"] = sem.PREDS[dom["p"]]
            else:
                raise ValueError("step domains are not picklable (helper steps hold lambdas)")
        return Option(n["key"], **kw)

    def n_apply(self, n):
        src = self.node(n["src"])
        fn = n["fn"]
        if "name" in fn:
            return src.apply(sem.APPLY[fn["name"]])
        return src >> pipeline_step(functools.partial(pmod.pair, p=self.node(fn["param"])))

    def n_bind(self, n):
        table = {sem.typed(v): self.node(b) for v, b in n["table"]}
        return self.node(n["src"]).bind(functools.partial(pmod.bind_fn, table, self.node(n["else"])))

    def _pred(self, p):
        if "arg" in p:
            raise ValueError("helper predicates are not picklable (they hold lambdas)")
        return sem.PREDS[p["p"]]

    def n_fapp(self, n):
        return FunctionApplication(pmod.fapp, *[self.node(a) for a in n["args"]], **{k: self.node(v) for k, v in n["kwargs"].items()})

    def n_map(self, n):
        from labrea import Map
        m = Map(self.node(n["body"]), {k: self.node(v) for k, v in n["iters"]})
        if n["as"] != "list":
            raise ValueError("Map.values holds a lambda")
        return m.apply(list)


def pbuild(spec, **kw):
    return PBuilt(spec, **kw)
