"""Importable module-level callables for picklable programs (C20)."""
from __future__ import annotations

import copy

from labrea import Option, dataset
from labrea.computation import Effect

from . import sem

LOG = []


def _body(name, kind, partial, args):
    args = tuple(sem.freeze(a) for a in args)
    LOG.append(("body", name))
    if partial and sem.PARTIAL_WHEN[partial["when"]](args):
        raise sem.EXC[partial["exc"]](f"partial:{name}")
    if kind == "first":
        return args[0]
    return (name,) + args


def body0(name, kind, partial):
    return _body(name, kind, partial, ())


def body1(name, kind, partial, p0):
    return _body(name, kind, partial, (p0,))


def body2(name, kind, partial, p0, p1):
    return _body(name, kind, partial, (p0, p1))


def body3(name, kind, partial, p0, p1, p2):
    return _body(name, kind, partial, (p0, p1, p2))


BODIES = [body0, body1, body2, body3]


def cb_plain(name, x):
    LOG.append(("cb", name))
    return ("cb", name, sem.freeze(x))


def cb_param(name, x, p):
    LOG.append(("cb", name))
    return ("cb", name, sem.freeze(x), sem.freeze(p))


def eff_plain(name, x):
    LOG.append(("effect", name, sem.typed(x), None))


def eff_param(name, x, p):
    LOG.append(("effect", name, sem.typed(x), sem.typed(p)))


class ModEffect(Effect):
    def __init__(self, name):
        self.name = name

    def transform(self, value, options=None):
        eff_plain(self.name, value)

    def validate(self, options):
        pass

    def explain(self, options=None):
        return set()

    def __repr__(self):
        return f"ModEffect({self.name})"


def factory(key, v):
    LOG.append(("factory", key))
    return copy.deepcopy(v)


def pair(x, p):
    return sem.step_pair(x, p)


def bind_fn(table, other, v):
    return table.get(sem.typed(v), other)


def fapp(*a, **kw):
    return ("fapp", tuple(sem.freeze(x) for x in a), tuple(sorted((k, sem.typed(v)) for k, v in kw.items())))


# decorator-form dataset defined at module level (known finding K3: cannot be pickled)
@dataset
def deco_ds(a=Option("A", 1)):
    return ("deco_ds", a)


def _explicit(a=Option("A", 1)):
    return ("explicit_ds", a)


explicit_ds = dataset(_explicit)


# ---- user-written subclasses of public classes, with state of their own ----------------------------------------------
from labrea.overload import Overloaded      # noqa: E402


class TaggedOverloaded(Overloaded):
    """What a user may write: an Overloaded that remembers extra per-instance settings (set in __init__, one of them with
    a class-level default) and uses them when it is evaluated."""

    strict = False

    def __init__(self, dispatch, lookup, default, tag, strict):
        super().__init__(dispatch, lookup, default)
        self.tag = tag
        self.strict = strict

    def evaluate(self, options):
        value = self.switch.evaluate(options)     # (what Overloaded.evaluate does)
        if self.strict and value is None:
            raise ValueError("strict: no value")
        return (self.tag, value)
