"""C01 — caching is transparent: cached graphs return what uncached evaluation returns."""
from __future__ import annotations

import copy

import labrea.cache
from hypothesis import strategies as st

from .. import specgen, universe as U
from ..build import build, run
from ..harness import Part, Violation
from ..ref import Ref

PID = "C01"
LEVEL = "exploration"
RULE = ("a program spec from the full combinator grammar plus a history of 3..10 (quick) / 3..24 (thorough) option "
        "dictionaries built from neighbour edits (change/delete/add one mentioned key, sibling inside a section, add an "
        "unmentioned key, permute, exact repeat) is evaluated step by step on ONE long-lived build; before each cached "
        "evaluation the same object is evaluated with caching switched off (context manager or LABREA.CACHE.DISABLED), and "
        "a fresh build and the reference interpreter are evaluated too; all four outcomes must agree. Non-trivial = at "
        "least one step was served from a warm cache (a cacheable dataset the reference says is needed did not run its "
        "body) after an earlier step whose dictionary differs in a key the program mentions; distinct = distinct "
        "(spec, history) hash.")
ASSUMPTIONS = [
    "reference interpreter vlib/ref.py (cross-check only; deciding relation is cached vs. uncached on the same object)",
    "bodies are total except in the part 'partial-bodies'",
    "MemoryCache backend",
]


def same(a, b):
    if a.ok != b.ok:
        return False
    return a.value == b.value if a.ok else True


def check_history(case, ctx, partial=False):
    spec = specgen.normalise(case["spec"], ctx.flags, ctx)
    hist = case["history"]
    ref = Ref(spec)
    G = build(spec)
    mentioned = specgen.mentioned_keys(spec)
    cacheable = {d["name"] for d in spec["defs"] if not d.get("nocache")}
    labels = set()
    warm_after_change = False
    if "no-coalesce-value-failure" in ctx.flags:
        if any("absorbed-under-cache" in ref.run(o).labels for o in hist):
            ctx.exclude("no-coalesce-value-failure")
            ctx.done(case, False, ["excluded-K6"])
            return
    live = {}
    for i, o in enumerate(hist):
        r = ref.run(o)
        where = f"step {i} options={o}"
        if case.get("reuse_dict_object"):
            # the caller keeps ONE dictionary object and edits it in place between evaluations
            live.clear()
            live.update(copy.deepcopy(o))
            o_call = live
            labels.add("same-dict-object-edited-in-place")
        else:
            o_call = o
        # (a) same object, caching off for this dictionary -- taken before the cached call
        if case.get("off", "ctx") == "ctx" or i % 2 == 0:
            with labrea.cache.disabled():
                off = run(G.root.evaluate, o)
        else:
            off = run(G.root.evaluate, {**o, "LABREA": {"CACHE": {"DISABLED": True}}})
        # (b) fresh build
        fresh = run(build(spec).root.evaluate, o)
        mark = len(G.log)
        on = run(G.root.evaluate, o_call)
        ran = set(G.bodies_run(mark))
        if not same(on, off):
            raise Violation("cached-vs-uncached", f"{where}: cached {on!r} but caching off {off!r}; reference {r!r}")
        if not same(on, fresh):
            raise Violation("cached-vs-fresh-build", f"{where}: long-lived {on!r} but fresh build {fresh!r}; reference {r!r}")
        if r.ok != on.ok or (r.ok and r.value != on.value):
            raise Violation("cached-vs-reference", f"{where}: cached {on!r} ({on.exc!r}) but reference {r!r}")
        if not r.ok and on.fail not in r.fails and not partial:
            raise Violation("failure-class", f"{where}: cached {on!r} ({on.exc!r}) but reference {r!r}")
        labels |= r.labels
        if r.ok and (r.must & cacheable) - ran:
            labels.add("warm-hit")
            for j in range(i):
                if any(U.dotted_get(hist[j], k) != U.dotted_get(o, k) for k in mentioned
                       if not (U.dotted_get(hist[j], k) is U.ABSENT and U.dotted_get(o, k) is U.ABSENT)):
                    warm_after_change = True
                    labels.add("warm-hit-after-neighbour-change")
                    break
    ctx.done(case, warm_after_change, labels)


def check(case, ctx):
    check_history(case, ctx)


def check_partial(case, ctx):
    check_history(case, ctx, partial=True)


@st.composite
def cases(draw, prof, maxlen):
    spec = draw(specgen.specs(prof))
    hist = draw(U.histories(min_len=3, max_len=maxlen, p_present=draw(st.sampled_from([0.6, 0.85, 0.95])),
                            focus=sorted(specgen.mentioned_keys(spec))))
    return {"spec": spec, "history": hist, "off": draw(st.sampled_from(["ctx", "mixed"])), "reuse_dict_object": draw(st.booleans())}


PROFILE = specgen.profile()
PARTS = [
    Part("histories", check,
         strategy=lambda ctx: cases(PROFILE, 10 if ctx.tier == "quick" else 24),
         budget={"quick": 400, "thorough": 2000}),
]
