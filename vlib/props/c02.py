"""C02 — memoization is effective: one body run per relevant option assignment; effects once per run."""
from __future__ import annotations

import collections
import copy

from hypothesis import strategies as st

from .. import specgen, universe as U
from ..build import build, log_capture, run
from ..harness import Part, Violation, canon
from ..ref import Ref, find_refs

PID = "C02"
LEVEL = "exploration"
RULE = ("dataset-heavy program specs (<=6 datasets with forced sharing, overloads, pre-set options, nocache nodes, effects) "
        "x a history made of a base dictionary followed by repeat-class steps (exact repeat; repeat plus keys nothing in "
        "the graph refers to, top-level or as an unmentioned sibling inside a section; top-level order permuted) and "
        "genuine neighbour changes, all on ONE long-lived build with instrumented bodies/effects. Checked: (i) a "
        "repeat-class step after a successful evaluation runs no body and no effect of any cacheable dataset on the "
        "successful path; (ii) per dataset, body runs over the whole history <= number of distinct assignments (computed "
        "by the reference interpreter) of the options its subgraph can refer to, plus failed visits; (iii) effects: one "
        "batch per computed (logged) evaluation, after the body, carrying a value the reference produces. Non-trivial = "
        "the history contains a repeat-class step after a success on a graph with >=2 cacheable datasets reached or a "
        "dataset visited more than once in one evaluation; distinct = distinct (spec, history) hash.")
ASSUMPTIONS = [
    "reference interpreter vlib/ref.py supplies the set of effective option dictionaries under which each dataset is visited",
    "bodies, callbacks and effects are total",
    "AllOptions excluded (its value is the whole dictionary)",
]


def static_mentions(spec):
    """dataset name -> option keys its subgraph can mention (static closure over refs)."""
    defs = {d["name"]: d for d in spec["defs"]}
    direct, deps = {}, {}
    for d in spec["defs"]:
        keys, refs = set(), set()

        def f(n):
            if n["k"] == "opt":
                keys.add(n["key"])
                dflt = n.get("default") or {}
                if dflt.get("t") == "tmpl":
                    keys.update(r for r in find_refs(dflt["s"]) if not r.startswith(":"))
                if dflt.get("t") == "const" and isinstance(dflt.get("v"), str):
                    keys.update(find_refs(dflt["v"]))
            elif n["k"] == "tmpl":
                keys.update(r for r in find_refs(n["s"]) if not r.startswith(":"))
            elif n["k"] == "switch" and isinstance(n["disp"], str):
                keys.add(n["disp"])
            elif n["k"] in ("ref",):
                refs.add(n["name"])
            elif n["k"] == "derived":
                refs.add(n["base"])
            elif n["k"] == "allopts":
                keys.add("*")

        for part in ("params", "overloads", "callback", "effects"):
            specgen.walk(d.get(part, []), f)
        if isinstance(d.get("dispatch"), str):
            keys.add(d["dispatch"])
        elif d.get("dispatch") is not None:
            specgen.walk(d["dispatch"], f)
        direct[d["name"]], deps[d["name"]] = keys, refs
    out = {}
    for name in defs:
        seen, stack, keys = set(), [name], set()
        while stack:
            x = stack.pop()
            if x in seen:
                continue
            seen.add(x)
            keys |= direct[x]
            stack.extend(deps[x])
        out[name] = keys
    return out


def proj(e, keys):
    """e projected on keys, closed under templated references found in the projected values."""
    keys = set(keys)
    out = {}
    todo = list(keys)
    seen = set()
    while todo:
        k = todo.pop()
        if k in seen:
            continue
        seen.add(k)
        v = U.dotted_get(e, k)
        out[k] = None if v is U.ABSENT else canon(v)
        if v is not U.ABSENT:
            for s in _strings(v):
                for r in find_refs(s):
                    todo.append(r)
    return canon(sorted(out.items()))


def _strings(v):
    if isinstance(v, str):
        yield v
    elif isinstance(v, dict):
        for x in v.values():
            yield from _strings(x)
    elif isinstance(v, list):
        for x in v:
            yield from _strings(x)


def unmentioned_ok(spec):
    """Keys from U.UNMENTIONED that nothing in the spec (incl. pre-set dictionaries) can refer to."""
    m = specgen.mentioned_keys(spec)
    out = []
    for u in U.UNMENTIONED:
        if any(u == k or u.startswith(k + ".") for k in m):
            continue
        out.append(u)
    return out


def check(case, ctx):
    spec = specgen.normalise(case["spec"], ctx.flags | {"no-allopts"}, ctx)
    late = case.get("late_effects")
    late_def = None
    if late:
        # the effects of one dataset are attached with add_effects() only after the graph has been in use
        # (objects derived from a dataset before the attachment are datasets of their own and keep their effect lists:
        # the effects are attached to them as well, so that the specification with effects describes all of them)
        late_def = [d for d in spec["defs"] if d.get("effects")]
        late_def = late_def[late["def"] % len(late_def)] if late_def else None
    if late_def:
        early = copy.deepcopy(spec)
        [d for d in early["defs"] if d["name"] == late_def["name"]][0].pop("effects")
        G = build(early)
        ref_early, ref_full = Ref(early), Ref(spec)
        ref = ref_full
    else:
        G = build(spec)
        ref = ref_early = ref_full = Ref(spec)
    if "no-coalesce-value-failure" in ctx.flags:
        for st_ in case["steps"]:
            if "o" in st_ and "absorbed-under-cache" in ref.run(st_["o"]).labels:
                ctx.exclude("no-coalesce-value-failure")
                ctx.done(case, False, ["excluded-K6"])
                return
    cacheable = {d["name"] for d in spec["defs"] if not d.get("nocache")}
    owner_of_effect = {}
    for d in spec["defs"]:
        for ov in d.get("overloads", []):
            if isinstance(ov[1], dict) and ov[1].get("k") == "ovfn":
                cacheable.add(ov[1]["name"])
        for e in d.get("effects", []):
            owner_of_effect[e["name"]] = d["name"]
    mentions = static_mentions(spec)
    ok_unmentioned = unmentioned_ok(spec)
    # materialise the history
    hist, kinds = [], []
    for step in case["steps"]:
        if step["t"] in ("fresh", "edit"):
            hist.append(step["o"]); kinds.append(step["t"])
        else:
            base = hist[step["of"] % len(hist)] if hist else {}
            if step["t"] == "repeat":
                hist.append(copy.deepcopy(base)); kinds.append("repeat")
            elif step["t"] == "perm":
                ks = list(base.keys())
                ks = ks[step["rot"] % len(ks):] + ks[:step["rot"] % len(ks)] if ks else ks
                hist.append({k: copy.deepcopy(base[k]) for k in reversed(ks)}); kinds.append("repeat")
            elif step["t"] == "extra":
                o = copy.deepcopy(base)
                added = False
                for u, v in step["add"]:
                    if u in ok_unmentioned:
                        parent = u.rsplit(".", 1)[0] if "." in u else None
                        if parent is None or isinstance(U.dotted_get(o, parent), dict):
                            o = U.dotted_set(o, u, v)
                            added = True
                hist.append(o); kinds.append("repeat")
    runs = collections.Counter()
    bound_sets = collections.defaultdict(set)
    failed_visits = collections.Counter()
    labels = set()
    succeeded = {}  # canon(o) of steps that succeeded (by index) -> for repeat detection
    nontrivial = False
    origin = []
    attach_at = (1 + late["at"] % (len(hist) - 1)) if late_def and len(hist) > 1 else None
    for i, o in enumerate(hist):
        if late_def:
            ref = ref_early if (attach_at is None or i < attach_at) else ref_full
        if i == attach_at:
            if late.get("touch"):
                run(getattr(G.ds[late_def["name"]], late["touch"]), hist[i - 1])
            targets = [G.ds[late_def["name"]]] + [dd for base, dd in G.derived if base == late_def["name"]]
            order = late.get("order", 0)
            targets = targets[order % len(targets):] + targets[:order % len(targets)]
            for tgt in targets:
                tgt.add_effects(*[G._effect(e) for e in late_def["effects"]])
            if len(targets) > 1:
                labels.add("effects-attached-to-parent-and-derived")
            # the effects' own options now belong to the dataset's keys: everything stored so far may be recomputed
            runs.clear(); bound_sets.clear(); failed_visits.clear()
            labels.add("effects-attached-after-use")
        r = ref.run(o)
        for name, visits in r.visit_ok.items():
            for e, ok in visits:
                bound_sets[name].add(proj(e, mentions.get(name.split("_o")[0], mentions.get(name, set()))))
                if not ok:
                    failed_visits[name] += 1
        mark = len(G.log)
        with log_capture(G):
            lab = run(G.root.evaluate, o)
        events = G.log[mark:]
        ran = [e[1] for e in events if e[0] == "body"]
        for b in ran:
            runs[b] += 1
        if lab.ok != r.ok or (r.ok and lab.value != r.value):
            # after a late attachment an entry stored before it may still be served (no effect runs on a cache hit), so an
            # effect that cannot be evaluated fails only the evaluations that are actually computed
            r_before = ref_early.run(o) if (late_def and attach_at is not None and i >= attach_at) else None
            if r_before is None or lab.ok != r_before.ok or (r_before.ok and lab.value != r_before.value):
                raise Violation("value", f"step {i} options={o}: labrea {lab!r} but reference {r!r}")
        # (i) repeat-class steps
        step = case["steps"][i]
        if kinds[i] == "repeat" and i > 0:
            src = step["of"] % i
            labels.add("repeat-class:" + step["t"])
            if attach_at is not None and src < attach_at <= i:
                pass   # not a repeat as far as the cache is concerned: the dataset was reconfigured in between
            elif origin[src]["ok"]:
                stable = (r.must - r.spec_bodies) & cacheable
                again = set(ran) & stable
                if again:
                    raise Violation("body-rerun-on-repeat", f"step {i} ({step['t']} of step {src}) options={o}: bodies {sorted(again)} ran again; "
                                                            f"earlier options={hist[src]}")
                eff = [e for e in events if e[0] == "effect" and owner_of_effect.get(e[1]) in stable]
                if eff:
                    raise Violation("effect-on-cache-hit", f"step {i} ({step['t']} of step {src}) options={o}: effects ran {eff[:3]}")
                if len(stable) >= 2 or any(len(v) > 1 for v in r.visits.values()):
                    nontrivial = True
        origin.append({"ok": r.ok})
        # (iii) effects
        if r.ok:
            allowed = collections.Counter((e[1], e[2], e[3]) for e in r.full_log if e[0] == "effect")
            got = collections.Counter((e[1], e[2], e[3]) for e in events if e[0] == "effect")
            extra = got - allowed
            # a nocache dataset is recomputed whenever it is needed (labrea may need a dispatch value
            # several times per evaluation), so only membership is checked for its effects
            extra = {k: v for k, v in extra.items() if owner_of_effect.get(k[0]) in cacheable or k not in allowed}
            if extra:
                raise Violation("effect-value", f"step {i} options={o}: effect calls {list(extra)[:3]} are not produced by the reference "
                                                f"(allowed {list(allowed)[:4]})")
            # one batch of effects per computed (logged) evaluation of the owning dataset, after its body
            logs = collections.Counter(e[1] for e in events if e[0] == "log")
            for d in spec["defs"]:
                effs = d.get("effects", [])
                if not effs or (late_def and d["name"] == late_def["name"] and ref is ref_early):
                    continue
                if any(not ok for _, ok in r.visit_ok.get(d["name"], [])):
                    continue  # a computation that failed was logged but (rightly) ran no effect
                for ef in effs:
                    n_eff = sum(1 for e in events if e[0] == "effect" and e[1] == ef["name"])
                    if "?" not in logs and n_eff != logs.get(d["name"], 0):
                        raise Violation("effect-count", f"step {i} options={o}: effect {ef['name']} of {d['name']} ran {n_eff}x but the dataset "
                                                        f"was computed {logs.get(d['name'], 0)}x")
                    if n_eff:
                        labels.add("effect-ran")
        labels |= r.labels
    # (ii) bound over the whole history
    for name in cacheable:
        bound = len(bound_sets.get(name, ()))
        if failed_visits.get(name, 0):
            continue  # failures are not stored, and a dispatch may be evaluated several times: no bound claimed
        if runs.get(name, 0) > bound:
            raise Violation("too-many-runs", f"body {name} ran {runs[name]}x over the history but the options it can depend on took only "
                                             f"{len(bound_sets.get(name, ()))} distinct assignments (+{failed_visits.get(name, 0)} failed visits); history={hist}")
    ctx.done(case, nontrivial, labels)


@st.composite
def cases(draw, prof, maxlen):
    spec = draw(specgen.specs(prof))
    cacheable = [d for d in spec["defs"] if not d.get("nocache")]
    if cacheable and draw(st.integers(0, 3)) == 0:
        # a dataset and a copy derived from it with options that change nothing for it: one computation serves both
        d = draw(st.sampled_from(cacheable))
        twin = {"k": "derived", "base": d["name"], "op": draw(st.sampled_from(["with_options", "with_default_options"])),
                "opts": draw(st.sampled_from([{}, {"Z1": 1}]))}
        items = [{"k": "ref", "name": d["name"]}, twin]
        spec = dict(spec, root={"k": "tuple", "items": [spec["root"]] + (items if draw(st.booleans()) else items[::-1])})
    p = draw(st.sampled_from([0.7, 0.9, 0.97]))
    steps = [{"t": "fresh", "o": draw(U.option_dicts(p_present=p))}]
    n = draw(st.integers(2, maxlen))
    cur = steps[0]["o"]
    mats = [cur]
    while len(steps) < n:
        t = draw(st.sampled_from(["repeat", "repeat", "perm", "extra", "extra", "edit", "edit", "fresh"]))
        of = draw(st.integers(0, len(steps) - 1))
        if t == "repeat":
            steps.append({"t": "repeat", "of": of}); mats.append(mats[of])
        elif t == "perm":
            steps.append({"t": "perm", "of": of, "rot": draw(st.integers(0, 5))}); mats.append(mats[of])
        elif t == "extra":
            add = draw(st.lists(st.tuples(st.sampled_from(U.UNMENTIONED), U.scalars()), min_size=1, max_size=2))
            steps.append({"t": "extra", "of": of, "add": [list(a) for a in add]}); mats.append(mats[of])
        elif t == "edit":
            o, _ = draw(U.edit_dict(mats[of], allow_unmentioned=False))
            steps.append({"t": "edit", "o": o}); mats.append(o)
        else:
            o = draw(U.option_dicts(p_present=p))
            steps.append({"t": "fresh", "o": o}); mats.append(o)
    case = {"spec": spec, "steps": steps}
    if any(d.get("effects") for d in spec["defs"]) and draw(st.integers(0, 2)) == 0:
        case["late_effects"] = {"def": draw(st.integers(0, 5)), "at": draw(st.integers(0, 15)),
                                "touch": draw(st.sampled_from([None, "validate", "keys", "explain"])), "order": draw(st.integers(0, 3))}
    return case


PROFILE = specgen.profile(max_defs=6, depth=2, domain_rate=0.01)
PARTS = [
    Part("histories", check, strategy=lambda ctx: cases(PROFILE, 8 if ctx.tier == "quick" else 16),
         budget={"quick": 500, "thorough": 2500}),
]
