"""C03 — keys() is sufficient and present-only; fingerprints depend on nothing else."""
from __future__ import annotations

import copy
import json
import os
import subprocess
import sys

from hypothesis import strategies as st

from .. import specgen, universe as U
from ..build import build, run
from ..harness import HERE, Part, Violation
from ..ref import Ref

PID = "C03"
LEVEL = "exploration"
RULE = ("part 'metamorphic': a program spec x an options dictionary on which keys(o)=K succeeds, plus generated "
        "perturbations: restriction of o to exactly K; change/delete/add of one or two keys outside K (unmentioned keys, "
        "siblings inside a section that holds a reported key, top-level permutation); change of the value under one "
        "reported key. Checked: every k in K is present; evaluate(o|K) = evaluate(o) and keys(o|K) = K; fingerprint equal "
        "for dictionaries agreeing on K and different when a value under a reported key differs. part 'hash-seed': "
        "batches of (spec, dictionary) are fingerprinted in child interpreters started with PYTHONHASHSEED in "
        "{1, 4242, seed-derived} and must be byte-identical to this process (PYTHONHASHSEED=0). Non-trivial = K non-empty "
        "and proper (something present in o lies outside K) and at least one inside and one outside perturbation applied; "
        "distinct = distinct (spec, o, perturbations) hash. Every evaluation uses a fresh build so caching cannot mask an "
        "insufficient key set.")
ASSUMPTIONS = [
    "list-indexed reported keys (L.0) are restricted by keeping the list they index",
    "bodies total; no AllOptions",
]

LEAF_KEYS = U.VALUE_KEYS + U.DISPATCH_KEYS + [U.THRESH, "L"]


def related(a, b):
    return a == b or a.startswith(b + ".") or b.startswith(a + ".")


def outside(key, K):
    return not any(related(key, k) for k in K)


def keys_of(spec, o):
    return run(lambda: build(spec).root.keys(o))


def fp_of(spec, o):
    b = build(spec)
    return b.root.fingerprint(o)


def check(case, ctx):
    spec = specgen.normalise(case["spec"], ctx.flags | {"no-allopts"}, ctx)
    o = case["options"]
    if "no-coalesce-value-failure" in ctx.flags:
        dicts = [o]
        for pert in case["perturbations"]:
            if pert[0] == "set":
                dicts.append(U.dotted_set(o, pert[1], pert[2]))
            elif pert[0] == "del":
                dicts.append(U.dotted_del(o, pert[1]))
        for d in dicts + [{}]:
            if "coalesce-absorbed-value-failure" in Ref(spec).run(d).labels:
                ctx.exclude("no-coalesce-value-failure")
                ctx.done(case, False, ["excluded-K6"])
                return
    b = build(spec)
    try:
        K = b.root.keys(o)
    except Exception:
        ctx.done(case, False, ["keys-fail"])
        return
    labels = {"keys-ok"}
    # 1. present-only
    for k in K:
        if not U.dotted_has(o, k):
            raise Violation("reported-key-absent", f"keys({o}) = {sorted(K)} but {k!r} is not present")
    # 2. sufficiency
    oK = U.restrict(o, K)
    if "no-coalesce-value-failure" in ctx.flags and "coalesce-absorbed-value-failure" in Ref(spec).run(oK).labels:
        ctx.exclude("no-coalesce-value-failure")
        ctx.done(case, False, ["excluded-K6"])
        return
    full = run(build(spec).root.evaluate, o)
    restr = run(build(spec).root.evaluate, oK)
    if full.ok != restr.ok or (full.ok and full.value != restr.value):
        raise Violation("keys-insufficient", f"keys={sorted(K)}: evaluate(o)={full!r} but evaluate(o|K)={restr!r}; o={o} o|K={oK}")
    try:
        K2 = build(spec).root.keys(oK)
    except Exception as e:
        raise Violation("keys-of-restriction", f"keys(o)={sorted(K)} but keys(o|K) raised {e!r}; o={o} o|K={oK}")
    if K2 != K:
        raise Violation("keys-of-restriction", f"keys(o)={sorted(K)} but keys(o|K)={sorted(K2)}; o={o} o|K={oK}")
    # 3. fingerprint
    fp = fp_of(spec, o)
    if fp_of(spec, oK) != fp:
        raise Violation("fingerprint-restriction", f"fingerprint differs between o and o|K; K={sorted(K)} o={o}")
    n_out = n_in = 0
    # the same evaluatable object and the same dictionary OBJECT, edited in place between calls: the fingerprint
    # must follow the contents (it is a function of the reported keys and their values alone)
    live = copy.deepcopy(o)
    same_obj = build(spec).root
    if same_obj.fingerprint(live) != fp:
        raise Violation("fingerprint-not-deterministic", f"two builds disagree on the fingerprint of {o}")
    for k in sorted(K)[:2]:
        broken = U.dotted_del(o, k)
        live.clear()
        live.update(copy.deepcopy(broken))
        try:
            same_obj.fingerprint(live)       # usually fails: a reported key is gone
        except Exception:
            labels.add("failed-then-repaired-in-place")
        live.clear()
        live.update(copy.deepcopy(o))
        try:
            got_k, got_fp = same_obj.keys(live), same_obj.fingerprint(live)
        except Exception as e:
            raise Violation("keys-depend-on-history", f"after {k!r} was removed from and restored in the same dictionary object keys() raises {e!r}; o={o}")
        if got_k != K or got_fp != fp:
            raise Violation("keys-depend-on-history", f"after {k!r} was removed from and restored in the same dictionary object: keys {sorted(got_k)} "
                                                      f"(fresh: {sorted(K)}), fingerprint {got_fp!r} (fresh: {fp!r}); o={o}")
    for pert in case["perturbations"]:
        if pert[0] == "inside" and K:
            key = sorted(K)[pert[1] % len(K)]
            if json.dumps(U.dotted_get(o, key), sort_keys=True) == json.dumps(pert[2], sort_keys=True):
                continue
            o3 = U.dotted_set(o, key, pert[2])
            live.clear()
            live.update(copy.deepcopy(o3))
            try:
                fresh3 = fp_of(spec, o3)
            except Exception:
                live.clear()
                live.update(copy.deepcopy(o))
                same_obj.fingerprint(live)
                continue
            got3 = same_obj.fingerprint(live)
            if got3 != fresh3:
                raise Violation("fingerprint-depends-on-history", f"after editing the same dictionary object in place ({key!r} -> {pert[2]!r}) the same "
                                                                  f"evaluatable reports {got3!r}, a fresh build on an equal dictionary {fresh3!r}; o={o}")
            labels.add("in-place-edit")
            live.clear()
            live.update(copy.deepcopy(o))
            same_obj.fingerprint(live)
    for pert in case["perturbations"]:
        kind = pert[0]
        if kind == "perm":
            # an equal dictionary built in another order, at every nesting level (sections, sections inside lists)
            def rev(x):
                if isinstance(x, dict):
                    return {k: rev(x[k]) for k in reversed(list(x))}
                if isinstance(x, list):
                    return [rev(i) for i in x]
                return copy.deepcopy(x)
            o2 = rev(o)
            if o:
                n_out += 1
            if any(isinstance(U.dotted_get(o, k), dict) and len(U.dotted_get(o, k)) >= 2 for k in K):
                labels.add("reported-section-reordered")
        elif kind in ("set", "del"):
            key = pert[1]
            if outside(key, K):
                o2 = U.dotted_set(o, key, pert[2]) if kind == "set" else U.dotted_del(o, key)
                parent_ok = True
                if "." in key:
                    # only add inside a section that exists (or create it when nothing reported lives there)
                    parent_ok = True
                if not parent_ok:
                    continue
                try:
                    Kp = build(spec).root.keys(o2)
                except Exception:
                    continue   # the perturbation made keys() fail: the relation does not apply
                if Kp != K:
                    # adding/removing a key outside K changed the key set (e.g. supplies a default's source):
                    # the dictionaries no longer "agree on the reported keys" in the property's sense
                    labels.add("outside-perturbation-changes-keys")
                    continue
                n_out += 1
                labels.add("outside-" + kind)
            else:
                continue
        elif kind == "inside":
            Ks = sorted(K)
            if not Ks:
                continue
            key = Ks[pert[1] % len(Ks)]
            old = U.dotted_get(o, key)
            new = pert[2]
            if json.dumps(old, sort_keys=True) == json.dumps(new, sort_keys=True):
                continue
            o3 = U.dotted_set(o, key, new)
            try:
                build(spec).root.keys(o3)
            except Exception:
                continue
            fp3 = fp_of(spec, o3)
            n_in += 1
            labels.add("inside-change")
            if fp3 == fp:
                raise Violation("fingerprint-insensitive", f"value under reported key {key!r} changed {old!r} -> {new!r} but the fingerprint "
                                                           f"is unchanged; K={sorted(K)} o={o}")
            continue
        else:
            continue
        fp2 = fp_of(spec, o2)
        if fp2 != fp:
            raise Violation("fingerprint-depends-on-outside", f"perturbation {pert} outside keys {sorted(K)} changed the fingerprint; o={o} o'={o2}")
        # outcome must be unaffected as well
        e2 = run(build(spec).root.evaluate, o2)
        if e2.ok != full.ok or (full.ok and e2.value != full.value):
            raise Violation("outcome-depends-on-outside", f"perturbation {pert} outside keys {sorted(K)} changed the outcome {full!r} -> {e2!r}; o={o}")
    proper = any(outside(k, K) and U.dotted_has(o, k) for k in LEAF_KEYS)
    ctx.done(case, bool(K) and proper and n_out >= 1 and n_in >= 1, labels)


@st.composite
def perturbations(draw):
    out = []
    for _ in range(draw(st.integers(3, 7))):
        kind = draw(st.sampled_from(["set", "set", "set", "del", "perm", "inside", "inside", "inside"]))
        if kind == "set":
            key = draw(st.sampled_from(LEAF_KEYS + U.UNMENTIONED))
            if key in U.DISPATCH_KEYS:
                v = draw(st.sampled_from(U.HASHABLE_DISPATCH))
            elif key == U.THRESH:
                v = draw(st.sampled_from(U.THRESH_VALUES))
            elif key == "L":
                v = draw(st.lists(U.scalars(), max_size=3))
            else:
                v = draw(U.plain_values())
            out.append(["set", key, v])
        elif kind == "del":
            out.append(["del", draw(st.sampled_from(LEAF_KEYS + ["S", "R", "R.U"]))])
        elif kind == "perm":
            out.append(["perm"])
        else:
            out.append(["inside", draw(st.integers(0, 7)), draw(st.one_of(U.plain_values(), st.sampled_from(U.THRESH_VALUES)))])
    return out


@st.composite
def cases(draw, prof):
    spec = draw(specgen.specs(prof))
    if draw(st.integers(0, 3)) == 0:
        # a whole section is read (and so reported): its members' order must not matter
        sec = {"k": "opt", "key": draw(st.sampled_from(["S", "R.U", "R"])), "default": {"t": "const", "v": None}}
        spec = dict(spec, root={"k": "tuple", "items": [spec["root"], sec]})
    perts = draw(perturbations())
    if ["perm"] not in perts:
        perts.append(["perm"])
    return {"spec": spec, "options": draw(U.option_dicts(p_present=draw(st.sampled_from([0.6, 0.85])))), "perturbations": perts}


# ---- hash-seed part ------------------------------------------------------------------------------------
def child_fingerprints(batch, hashseed):
    env = dict(os.environ)
    env["PYTHONHASHSEED"] = str(hashseed)
    p = subprocess.run([sys.executable, "-m", "vlib.props.c03child"], input=json.dumps(batch), capture_output=True, text=True,
                       env=env, cwd=HERE, timeout=120)
    if p.returncode != 0:
        raise RuntimeError("c03 child failed: " + p.stderr[-2000:])
    return json.loads(p.stdout)


def local_fingerprints(batch):
    out = []
    for item in batch:
        try:
            out.append(fp_of(item["spec"], item["options"]).hex())
        except Exception as e:
            out.append("ERR:" + type(e).__name__)
    return out


def check_hashseed(case, ctx):
    batch = [{"spec": specgen.normalise(i["spec"], ctx.flags | {"no-allopts"}), "options": i["options"]} for i in case["batch"]]
    mine = local_fingerprints(batch)
    seeds = [1, 4242, 100000 + (ctx.seed * 7919 + len(json.dumps(case)) ) % 900000]
    nontrivial = sum(1 for m in mine if not m.startswith("ERR") and m != b"[]".hex()) >= 2
    for hs in seeds:
        theirs = child_fingerprints(batch, hs)
        for item, a, b in zip(batch, mine, theirs):
            if a != b:
                raise Violation("fingerprint-across-processes", f"PYTHONHASHSEED=0 gives {bytes.fromhex(a) if not a.startswith('ERR') else a!r} but "
                                                                f"PYTHONHASHSEED={hs} gives {bytes.fromhex(b) if not b.startswith('ERR') else b!r}; options={item['options']}")
    ctx.done(case, nontrivial, ["child-process"])


@st.composite
def batches(draw, prof):
    return {"batch": [{"spec": draw(specgen.specs(prof)), "options": draw(U.option_dicts(p_present=0.9))} for _ in range(6)]}


PROFILE = specgen.profile()
PARTS = [
    Part("metamorphic", check, strategy=lambda ctx: cases(PROFILE), budget={"quick": 300, "thorough": 1500}),
    Part("hash-seed", check_hashseed, strategy=lambda ctx: batches(PROFILE), budget={"quick": 5, "thorough": 25}),
]
