"""Child interpreter for C03: reads a JSON batch of (spec, options) on stdin, prints fingerprints (hex)."""
import json
import sys

from vlib.props.c03 import local_fingerprints

print(json.dumps(local_fingerprints(json.load(sys.stdin))))
