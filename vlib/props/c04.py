"""C04 — Option resolution: present key wins (even falsy), else default, else error; namespaces; set."""
from __future__ import annotations

import copy
import warnings

from hypothesis import strategies as st
from labrea import Option, runtime
from labrea.type_validation import TypeValidationRequest

from .. import sem, specgen, universe as U
from ..build import build, run
from ..harness import Part, Violation
from ..ref import Ref

PID = "C04"
LEVEL = "exploration"
RULE = ("part 'resolution': one Option (key over the nested universe incl. sections, list indices, keys that are prefixes "
        "of one another; default none / constant / template / factory / chained Option / dataset; domain none / container "
        "/ predicate / evaluatable step) x option dictionaries whose values include every falsy value, templated strings "
        "and lists of sections; evaluate is compared with an independent dotted lookup + substitution (typed, so False != 0 "
        "!= None), a missing-key failure must name the option's key (or the unresolved reference), a value outside the "
        "domain must never be returned, and validate/keys agree with evaluate. part 'namespace': generated member tables "
        "(annotation, constant, Option, Option.auto with default/doc/domain/type/transform, nested and renamed "
        "sub-namespaces): every member must behave exactly like the equivalent fully-qualified Option on "
        "evaluate/validate/keys/explain and issue the same type-validation requests; ns(o) is the nested dict of members. "
        "part 'set': Option.set(o, v) for non-mapping v returns a new dictionary in which the option evaluates to v, all "
        "keys off the option's path are intact and the input is unmodified. Non-trivial = a falsy present value, a "
        "prefix/list key, a non-constant default taken, or a domain check exercised (resolution); >=1 defaulted and >=1 "
        "provided member (namespace); nested key into an existing section (set).")
ASSUMPTIONS = [
    "no '{@env.*}' references, no cyclic templates, no integer segments applied to strings",
    "Option.set is only called with non-mapping values (as the property states)",
]

KEYS = U.OPTION_KEYS + ["L.2", "L.1.Q", "S.X.Q", "R", "R.U.V.Q"]


@st.composite
def rich_dicts(draw, scalar_sections):
    o = draw(U.option_dicts(p_present=draw(st.sampled_from([0.4, 0.7, 0.9]))))
    r = draw(st.integers(0, 9))
    if r == 0 and "L" in o:
        o["L"] = [draw(st.one_of(U.scalars(), st.fixed_dictionaries({"Q": U.scalars()}))) for _ in range(draw(st.integers(0, 3)))]
    if r == 1 and scalar_sections:
        o[draw(st.sampled_from(["S", "R", "L"]))] = draw(st.sampled_from([5, None, True]))
    # make falsy values frequent
    for k in list(o):
        if k in U.FLAT and draw(st.integers(0, 4)) == 0:
            o[k] = draw(st.sampled_from([None, False, 0, "", [], 0.0]))
    return o


def is_scalar_section(o, key):
    """Does resolving `key` walk into a non-container (known finding K4)?"""
    cur = o
    for seg in key.split("."):
        if isinstance(cur, dict):
            if seg not in cur:
                return False
            cur = cur[seg]
        elif isinstance(cur, list):
            if not seg.lstrip("-").isdigit() or not (-len(cur) <= int(seg) < len(cur)):
                return False
            cur = cur[int(seg)]
        else:
            return True
    return False


def uses_scalar_section(spec_root, o):
    found = []
    specgen.walk(spec_root, lambda n: found.append(n["key"]) if n["k"] == "opt" else None)
    return any(is_scalar_section(o, k) for k in found)


def check_resolution(case, ctx):
    node = case["option"]
    spec = {"defs": case["defs"], "root": node}
    spec = specgen.normalise(spec, ctx.flags, ctx)
    o = case["options"]
    labels = set()
    r = Ref(spec).run(o)
    mentioned = specgen.mentioned_keys(spec)
    if "scalar-section-walk" in r.labels or uses_scalar_section(spec["root"], o) or any(is_scalar_section(o, k) for k in mentioned):
        if "no-scalar-section" in ctx.flags:
            ctx.exclude("no-scalar-section")
            ctx.done(case, False, ["excluded-K4"])
            return
    b = build(spec)
    opt = b.root
    ev = run(opt.evaluate, o)
    if r.ok:
        if not ev.ok:
            raise Violation("value-vs-failure", f"Option {node} on {o}: expected {r.value} but failed {ev.fail} ({ev.exc!r})")
        if ev.value != r.value:
            raise Violation("wrong-value", f"Option {node} on {o}: expected {r.value} but got {ev.value}")
    else:
        if ev.ok:
            rel = "domain-violation-returned" if ("domain",) in r.fails else "failure-vs-value"
            raise Violation(rel, f"Option {node} on {o}: expected failure {sorted(r.fails)} but got {ev.value}")
        if ev.fail not in r.fails:
            raise Violation("failure-class", f"Option {node} on {o}: expected {sorted(r.fails)} but {ev.fail} ({ev.exc!r})")
        if ev.raw:
            raise Violation("raw-exception", f"Option {node} on {o}: raised {ev.exc!r} instead of an EvaluationError")
    # validate agrees with evaluate (domain included); keys agree unless only the domain rejects the value
    val = run(build(spec).root.validate, o)
    has_domain = []
    specgen.walk(spec, lambda n: has_domain.append(1) if n.get("domain") else None)
    if val.ok != ev.ok and not (not ev.ok and has_domain):
        # (a default outside the option's own domain is only caught by evaluate; C10 covers agreement
        # for values inside their domains)
        raise Violation("validate-disagrees", f"Option {node} on {o}: evaluate {ev!r} but validate {val!r}")
    ks = run(build(spec).root.keys, o)
    if not ks.ok and ev.ok:
        raise Violation("keys-disagrees", f"Option {node} on {o}: evaluate {ev!r} but keys {ks!r}")
    ex = run(build(spec).root.explain, o)
    if not ex.ok and ev.ok:
        raise Violation("explain-fails", f"Option {node} on {o}: evaluate ok but explain {ex!r}")
    # one long-lived Option object evaluated on further dictionaries: each outcome depends on that dictionary alone
    same = build(spec).root
    run(same.evaluate, o)
    if r.ok:
        # a consumer that works in place on what the option gave it must not change what the option gives next time
        try:
            given = same.evaluate(copy.deepcopy(o))
        except Exception:
            given = None

        def scribble(a, depth=0):
            if isinstance(a, list):
                for x_ in a:
                    if depth < 2:
                        scribble(x_, depth + 1)
                a.append("scribbled")
            elif isinstance(a, dict):
                for x_ in list(a.values()):
                    if depth < 2:
                        scribble(x_, depth + 1)
                a["scribbled"] = 1
        if isinstance(given, (list, dict)):
            scribble(given)
            again = run(same.evaluate, copy.deepcopy(o))
            if not again.ok or again.value != r.value:
                raise Violation("value-shared-with-consumer", f"Option {node} on {o}: after a consumer edited the value it was given in place the option gives "
                                                              f"{again!r}, expected {r.value}")
            labels.add("consumer-edits-value-in-place")
    for o_more in case.get("more", []):
        if "scalar-section-walk" in Ref(spec).run(o_more).labels or any(is_scalar_section(o_more, k) for k in mentioned) \
                or uses_scalar_section(spec["root"], o_more):
            continue
        r2 = Ref(spec).run(o_more)
        e2 = run(same.evaluate, o_more)
        if e2.ok != r2.ok or (r2.ok and e2.value != r2.value):
            rel = "domain-violation-returned" if (not r2.ok and ("domain",) in r2.fails and e2.ok) else "depends-on-earlier-evaluation"
            raise Violation(rel, f"Option {node} evaluated on {o} and then, same object, on {o_more}: got {e2!r} but expected {r2!r}")
        labels.add("same-object-reused")
    key = node["key"]
    raw = U.dotted_get(o, key)
    if raw is not U.ABSENT and (raw is None or raw is False or raw == 0 or raw == "" or raw == [] or raw == {}):
        labels.add("falsy-present")
    if "." in key or key in ("S", "R", "L"):
        labels.add("prefix-or-nested-key")
    if any(seg.isdigit() for seg in key.split(".")):
        labels.add("list-index-key")
    if raw is U.ABSENT and node.get("default", {}).get("t") in ("tmpl", "factory", "node"):
        labels.add("non-constant-default-taken")
    if "domain-checked" in r.labels:
        labels.add("domain-checked")
    if "templated-value" in r.labels:
        labels.add("templated-value")
    labels.add("ok" if r.ok else "fail:" + sorted(r.fails)[0][0])
    ctx.done(case, bool(labels & {"falsy-present", "prefix-or-nested-key", "list-index-key", "non-constant-default-taken", "domain-checked"}), labels)


@st.composite
def resolution_cases(draw, scalar_sections=True):
    g = specgen._G(draw, specgen.profile(domain_rate=0.3, max_defs=2))
    g.defs.append(g.dataset_def(0, hashable=True))
    node = g.opt(keys=KEYS)
    if draw(st.integers(0, 3)) == 0:
        node["default"] = {"t": "node", "n": {"k": "opt", "key": draw(st.sampled_from(KEYS)),
                                              "default": {"t": "node", "n": g.leaf()}}}
    if "domain" in node and node["domain"]["t"] == "step" and draw(st.booleans()):
        # an evaluatable domain that has a default of its own
        node["domain"]["arg"] = {"k": "opt", "key": draw(st.sampled_from(["B", "E", "L"])), "default": {"t": "const", "v": draw(st.sampled_from([[1, "a", None], 1, "a"]))}}
    o = draw(rich_dicts(scalar_sections))
    more = []
    for _ in range(draw(st.integers(0, 2))):
        o2, _ = draw(U.edit_dict(more[-1] if more else o, allow_unmentioned=False, focus=[node["key"], "B", "E", "L"]))
        more.append(o2)
    dom = node.get("domain") or {}
    if dom.get("t") == "step" and "default" in dom.get("arg", {}) and draw(st.integers(0, 3)) > 0:
        # first the domain's own option is absent (its default applies), then it is supplied with another value
        akey = dom["arg"]["key"]
        o = U.dotted_del(o, akey)
        more = [U.dotted_set(o, akey, draw(st.sampled_from([[2, "b"], [], 2, "b", [1, "a", None]])))] + more[:1]
    return {"option": node, "defs": g.defs, "options": o, "more": more}


# ---- namespaces -----------------------------------------------------------------------------------------------
MEMBER_NAMES = ["P", "Q", "R2", "V", "W"]
DOMAINS = [None, [1, 2, "a", None], "not_none", "is_str"]
TYPES = {"any": None, "int": int, "str": str}
TRANSFORMS = {"tostr": sem.f_tostr, "wrap": sem.f_wrap}


@st.composite
def member_tables(draw, depth=0):
    names = draw(st.lists(st.sampled_from(MEMBER_NAMES), min_size=1, max_size=4, unique=True))
    members = []
    for nm in names:
        kind = draw(st.sampled_from(["ann", "const", "ann_const", "option", "auto", "auto_tf"] + (["sub", "sub_renamed"] if depth < 2 else [])))
        m = {"name": nm, "kind": kind}
        if kind in ("const", "ann_const"):
            m["default"] = draw(st.sampled_from([None, 0, False, "", "a", 1, [1], {"x": 1}, "t{A}"]))
        if kind in ("ann", "ann_const"):
            m["type"] = draw(st.sampled_from(["int", "str"]))
        if kind in ("option", "auto", "auto_tf"):
            if draw(st.booleans()):
                m["default"] = draw(st.sampled_from([None, 0, False, "", "a", 1, [1], "t{A}"]))
            m["domain"] = draw(st.sampled_from(DOMAINS))
            m["type"] = draw(st.sampled_from(list(TYPES)))
            m["doc"] = draw(st.sampled_from(["", "a doc"]))
            if kind == "option":
                m["key"] = draw(st.sampled_from([nm, nm + "X"]))
            if kind == "auto_tf":
                m["tf"] = draw(st.lists(st.sampled_from(list(TRANSFORMS)), min_size=1, max_size=2))
        if kind in ("sub", "sub_renamed"):
            m["members"] = draw(member_tables(depth + 1))
            if kind == "sub_renamed":
                m["rename"] = draw(st.sampled_from(["MOD-2", "other"])) + "-" + nm   # unique per member
        members.append(m)
    return members


def _dom(d):
    if d is None:
        return {}
    if isinstance(d, list):
        return {"domain": list(d)}
    return {"domain": sem.PREDS[d]}


def _typ(t):
    return {} if t in (None, "any") else {"type": TYPES[t]}


def build_ns_class(name, members, standalone=None):
    ns = {"__annotations__": {}}
    for m in members:
        k = m["kind"]
        if k == "ann":
            ns["__annotations__"][m["name"]] = TYPES[m["type"]]
        elif k == "const":
            ns[m["name"]] = copy.deepcopy(m["default"])
        elif k == "ann_const":
            ns["__annotations__"][m["name"]] = TYPES[m["type"]]
            ns[m["name"]] = copy.deepcopy(m["default"])
        elif k == "option":
            kw = {}
            if "default" in m:
                kw["default"] = copy.deepcopy(m["default"])
            ns[m["name"]] = Option(m["key"], doc=m["doc"], **kw, **_dom(m["domain"]), **_typ(m["type"]))
        elif k in ("auto", "auto_tf"):
            kw = {}
            if "default" in m:
                kw["default"] = copy.deepcopy(m["default"])
            a = Option.auto(doc=m["doc"], **kw, **_dom(m["domain"]), **_typ(m["type"]))
            for tf in m.get("tf", []):
                a = a >> TRANSFORMS[tf]
            ns[m["name"]] = a
        elif k == "sub":
            ns[m["name"]] = build_ns_class(m["name"], m["members"], standalone)
        elif k == "sub_renamed":
            ns[m["name"]] = Option.namespace(m["rename"])(build_ns_class(m["name"], m["members"], standalone))
            if standalone is not None:
                # a namespace in its own right (keys start at its own name) that is also mounted under a parent
                standalone.append((m["rename"], m["members"], ns[m["name"]]))
    return type(name, (), ns)


def equivalents(prefix, members, path=()):
    """[(attribute path, equivalent evaluatable, full key, is_plain_option)]"""
    out = []
    for m in members:
        k = m["kind"]
        if k in ("sub", "sub_renamed"):
            seg = m.get("rename", m["name"])
            out += equivalents(f"{prefix}.{seg}", m["members"], path + (m["name"],))
            continue
        key = f"{prefix}.{m.get('key', m['name'])}"
        kw = {}
        if "default" in m:
            kw["default"] = copy.deepcopy(m["default"])
        kw.update(_dom(m.get("domain")))
        kw.update(_typ(m.get("type")))
        e = Option(key, **kw)
        for tf in m.get("tf", []):
            e = e >> TRANSFORMS[tf]
        out.append((path + (m["name"],), e, key, not m.get("tf")))
    return out


def ns_dict(prefix, members, o):
    """Expected value of ns(o): nested dict of plain-Option members (and sub-namespaces)."""
    out = {}
    for m in members:
        k = m["kind"]
        if k in ("sub", "sub_renamed"):
            seg = m.get("rename", m["name"])
            out[seg] = ns_dict(f"{prefix}.{seg}", m["members"], o)
        elif not m.get("tf"):
            kw = {}
            if "default" in m:
                kw["default"] = copy.deepcopy(m["default"])
            kw.update(_dom(m.get("domain")))
            out[m.get("key", m["name"])] = Option(f"{prefix}.{m.get('key', m['name'])}", **kw).evaluate(o)
    return out


def with_type_log(fn):
    seen = []

    def handler(req):
        seen.append((sem.typed(req.value), getattr(req.type, "__name__", repr(req.type))))

    with runtime.handle(TypeValidationRequest, handler):
        out = run(fn)
    return out, seen


def check_namespace(case, ctx):
    members = case["members"]
    top = "NS"
    standalone = []
    with warnings.catch_warnings():
        warnings.simplefilter("ignore")
        cls = build_ns_class(top, members, standalone)
        ns = Option.namespace(cls) if not case["rename"] else Option.namespace(case["rename"])(cls)
    prefix = case["rename"] or top
    labels = set()
    provided = defaulted = 0
    # every mount of the member tables: the generated namespace itself, and each renamed sub-namespace used on its own
    # (its keys then start at its own name); the order in which the mounts are first looked up is part of the case
    mounts = [(prefix, members, ns)] + standalone
    order = case.get("mount_order", 0)
    if len(mounts) > 1:
        labels.add("group-mounted-twice")
        mounts = mounts[order % len(mounts):] + mounts[:order % len(mounts)]
    for flat in case["assignments"]:
        o = U.nest({f"{prefix}.{k}": v for k, v in flat["ns"].items()})
        o = U.overlay(o, flat["outer"])
        for sa_prefix, sa_members, sa_ns in standalone:
            # the same assignment, addressed to the standalone mount as well
            sub = U.dotted_get(o, _find_prefix(prefix, members, sa_members))
            if isinstance(sub, dict):
                o = U.overlay(o, {sa_prefix: copy.deepcopy(sub)}) if sa_prefix not in o else o
        for mprefix, mmembers, mns in mounts:
          for path, eq, key, plain in equivalents(mprefix, mmembers):
            member = mns
            for seg in path:
                member = getattr(member, seg)
            for opname in ("evaluate", "validate", "keys", "explain"):
                with warnings.catch_warnings():
                    warnings.simplefilter("ignore")
                    got, tg = with_type_log(lambda: getattr(member, opname)(o))
                    exp, te = with_type_log(lambda: getattr(eq, opname)(o))
                if got.ok != exp.ok or (got.ok and got.value != exp.value) or (not got.ok and got.fail != exp.fail):
                    raise Violation("member-differs-from-option", f"{'.'.join(path)} of namespace {mprefix!r} vs Option({key!r}...): {opname}({o}) gives {got!r} but the "
                                                                  f"equivalent option gives {exp!r}; member spec {[m for m in mmembers if m['name'] == path[0]]}; "
                                                                  f"mounts looked up in the order {[m[0] for m in mounts]}")
                if tg != te:
                    raise Violation("type-request-differs", f"{'.'.join(path)}: {opname}({o}) issued type checks {tg} but the equivalent option {te}")
            if U.dotted_has(o, key):
                provided += 1
            else:
                defaulted += 1
        # whole namespace
        with warnings.catch_warnings():
            warnings.simplefilter("ignore")
            whole = run(ns.evaluate, o)
            try:
                expected = ns_dict(prefix, members, o)
                exp_ok = True
            except Exception:
                exp_ok = False
        def has_empty(d):
            return isinstance(d, dict) and (not d or any(has_empty(v) for v in d.values()))
        if exp_ok and has_empty({"_": expected}):
            continue   # a (sub-)namespace without plain options: its value is not specified
        if whole.ok != exp_ok:
            raise Violation("namespace-value", f"ns({o}) {whole!r} but members {'evaluate' if exp_ok else 'fail'}")
        if whole.ok and whole.value != sem.typed(expected):
            raise Violation("namespace-value", f"ns({o}) = {whole.value} but nested members give {sem.typed(expected)}")
    labels.add("provided" if provided else "none-provided")
    labels.add("defaulted" if defaulted else "none-defaulted")
    ctx.done(case, provided > 0 and defaulted > 0, labels | {"kind:" + m["kind"] for m in members})


def _find_prefix(prefix, members, target):
    """Full key of the sub-table `target` inside the table mounted at `prefix`."""
    for m in members:
        if m["kind"] in ("sub", "sub_renamed"):
            p = f"{prefix}.{m.get('rename', m['name'])}"
            if m["members"] is target:
                return p
            r = _find_prefix(p, m["members"], target)
            if r:
                return r
    return None


def flat_member_keys(members, prefix=""):
    out = []
    for m in members:
        if m["kind"] in ("sub", "sub_renamed"):
            out += flat_member_keys(m["members"], prefix + m.get("rename", m["name"]) + ".")
        else:
            out.append(prefix + m.get("key", m["name"]))
    return out


@st.composite
def namespace_cases(draw):
    members = draw(member_tables())
    keys = flat_member_keys(members)
    assignments = []
    for _ in range(3):
        ns = {}
        for k in keys:
            if draw(st.booleans()):
                ns[k] = draw(st.sampled_from([None, 0, False, "", "a", 1, 2, [1], "x{A}", 5]))
        outer = {"A": draw(st.sampled_from([1, "z"]))} if draw(st.booleans()) else {}
        assignments.append({"ns": ns, "outer": outer})
    return {"members": members, "assignments": assignments, "rename": draw(st.sampled_from([None, None, "MY-PKG"])),
            "mount_order": draw(st.integers(0, 3))}


# ---- Option.set --------------------------------------------------------------------------------------------------
def check_set(case, ctx):
    key, o, v = case["key"], case["options"], case["value"]
    listy = any(seg.isdigit() for seg in key.split("."))
    if listy and "no-set-list-index" in ctx.flags:
        ctx.exclude("no-set-list-index")
        ctx.done(case, False, ["excluded-K5"])
        return
    if is_scalar_section(o, key) and "no-scalar-section" in ctx.flags:
        ctx.exclude("no-scalar-section")
        ctx.done(case, False, ["excluded-K4"])
        return
    snap = copy.deepcopy(o)
    opt = Option(key)
    try:
        d = opt.set(o, copy.deepcopy(v))
    except Exception as e:
        raise Violation("set-raised", f"Option({key!r}).set({o}, {v!r}) raised {e!r}")
    if o != snap or sem.typed(o) != sem.typed(snap):
        raise Violation("set-mutated-input", f"Option({key!r}).set mutated its input: {snap} -> {o}")
    if d is o:
        raise Violation("set-returned-input", f"Option({key!r}).set returned the input object")
    got = run(opt.evaluate, d)
    if isinstance(v, str) and "{" in v:
        pass
    elif not got.ok or got.value != sem.typed(v):
        raise Violation("set-then-get", f"Option({key!r}).set({o}, {v!r}) = {d} but the option then gives {got!r}")
    # every key off the option's path is intact
    for k in U.VALUE_KEYS + U.DISPATCH_KEYS + [U.THRESH, "L"]:
        if k == key or k.startswith(key + ".") or key.startswith(k + "."):
            continue
        a, b = U.dotted_get(o, k), U.dotted_get(d, k)
        if (a is U.ABSENT) != (b is U.ABSENT) or (a is not U.ABSENT and sem.typed(a) != sem.typed(b)):
            raise Violation("set-changed-other-key", f"Option({key!r}).set({o}, {v!r}) changed {k!r}: {a!r} -> {b!r}")
    # mutating the result must not reach the input (no aliasing at the top level)
    if isinstance(d, dict):
        d["__probe__"] = 1
        if "__probe__" in o:
            raise Violation("set-aliases-input", "result and input share the top-level dict")
    nested = "." in key and isinstance(U.dotted_get(o, key.rsplit(".", 1)[0]), dict)
    ctx.done(case, nested, ["nested-existing-section"] if nested else ["flat-or-new"])


@st.composite
def set_cases(draw):
    key = draw(st.sampled_from(U.VALUE_KEYS + U.DISPATCH_KEYS + ["T", "L", "L.0", "L.1", "S.Q", "R.U.Q", "N.E.W"]))
    return {"key": key, "options": draw(rich_dicts(True)),
            "value": draw(st.sampled_from([None, 0, False, "", "a", 1, 2.5, [], [1, "a"], "lit"]))}


PARTS = [
    Part("resolution", check_resolution, strategy=lambda ctx: resolution_cases(), budget={"quick": 1000, "thorough": 6000}),
    Part("namespace", check_namespace, strategy=lambda ctx: namespace_cases(), budget={"quick": 200, "thorough": 1000}),
    Part("set", check_set, strategy=lambda ctx: set_cases(), budget={"quick": 300, "thorough": 3000}),
]
