"""C05 — combinators evaluate to what the equivalent eager Python computation yields."""
from __future__ import annotations

from hypothesis import strategies as st

from .. import specgen, universe as U
from ..build import build, run
from ..harness import Part, Violation
from ..ref import Ref

PID = "C05"
LEVEL = "exploration"
RULE = ("random part: specs from the full combinator grammar (vlib/specgen.py) x 3 option dictionaries each; every "
        "evaluation is on a fresh build and compared (typed value, or failure descriptor membership) with the reference "
        "interpreter vlib/ref.py. exhaustive part: every tree of <=2 combinator nodes over a reduced alphabet x a fixed "
        "dictionary universe. A case is non-trivial when the reference took a branch decision (switch branch/default, "
        "case, coalesce fall-through, overload) or a Map produced >=2 assignments, and the spec nests >=2 combinators; "
        "distinct = distinct (spec, dictionaries) hash.")
ASSUMPTIONS = [
    "reference interpreter vlib/ref.py encodes DESIGN.md Appendix A",
    "dispatch values hashable; no cyclic templates; no dict-valued references inside multi-part templates",
    "for failing evaluations labrea's failure descriptor must be a member of the reference's set of possible failures",
]

BRANCH_LABELS = {"switch-branch", "switch-default-by-failure", "switch-default-by-unknown", "case-default",
                 "coalesce-fallthrough", "overload-taken", "map>=2", "dispatch-failed-default"}
COMBINATORS = {"apply", "bind", "switch", "case", "coalesce", "list", "tuple", "dict", "iter", "map", "with", "fapp", "ref",
               "derived", "tmpl", "cached"}


def compare(lab, r, where):
    if r.ok:
        if not lab.ok:
            raise Violation("value-vs-failure", f"{where}: reference {r!r} but labrea {lab!r} ({lab.exc!r})")
        if lab.value != r.value:
            raise Violation("value-mismatch", f"{where}: reference {r.value} but labrea {lab.value}")
    else:
        if lab.ok:
            raise Violation("failure-vs-value", f"{where}: reference {r!r} but labrea returned {lab.value}")
        if lab.fail not in r.fails:
            raise Violation("failure-class", f"{where}: reference {sorted(r.fails)} but labrea {lab.fail} ({lab.exc!r})")


def check(case, ctx):
    spec = specgen.normalise(case["spec"], ctx.flags, ctx)
    ref = Ref(spec)
    if specgen.k6_excluded(ctx, ref, case["options"], single_evaluation=True):
        ctx.done(case, False, ["excluded-K6"])
        return
    labels = set()
    branchy = False
    for o in case["options"]:
        r = ref.run(o)
        b = build(spec)
        lab = run(b.root.evaluate, o)
        compare(lab, r, f"options={o}")
        labels |= r.labels
        labels.add("ok" if r.ok else "fail:" + sorted(r.fails)[0][0])
        branchy |= bool(r.labels & BRANCH_LABELS)
    kinds = []
    specgen.walk(spec, lambda n: kinds.append(n["k"]))
    ncomb = sum(1 for k in kinds if k in COMBINATORS)
    ctx.done(case, branchy and ncomb >= 2, labels)


@st.composite
def cases(draw, prof):
    spec = draw(specgen.specs(prof))
    opts = [draw(U.option_dicts())]
    for _ in range(2):
        o, _ = draw(U.edit_dict(opts[-1]))
        opts.append(o)
    return {"spec": spec, "options": opts}


PROFILE = specgen.profile(tuple_dispatch=0.3)
# lazy members (bare Iter / Map) directly under coalesce: with total callables and no domains "can be validated" and
# "can be evaluated" coincide, so the eager reference applies to them as well
LAZY = specgen.profile(lazy_in_coalesce=True, domain_rate=0.0, total_preds=True, max_defs=3)


@st.composite
def lazy_cases(draw):
    g = specgen._G(draw, LAZY)
    for i in range(draw(st.integers(1, 3))):
        g.defs.append(g.dataset_def(i))
    members = []
    for _ in range(draw(st.integers(2, 3))):
        kind = draw(st.sampled_from(["iter", "map", "node"]))
        if kind == "iter":
            members.append({"k": "iter", "items": [g.node(1) for _ in range(draw(st.integers(1, 3)))]})
        elif kind == "map":
            members.append({"k": "map", "body": g.node(1), "iters": [[draw(st.sampled_from(["A", "B", "S.X"])), {"k": "val", "v": draw(st.lists(st.sampled_from([1, 2, "a"]), max_size=2))}]],
                            "as": draw(st.sampled_from(["raw", "values_raw"]))})
        else:
            members.append(g.node(1))
    spec = {"defs": g.defs, "root": {"k": "coalesce", "members": members}}
    opts = [draw(U.option_dicts(p_present=draw(st.sampled_from([0.4, 0.7]))))]
    for _ in range(2):
        o, _ = draw(U.edit_dict(opts[-1]))
        opts.append(o)
    return {"spec": spec, "options": opts}


PARTS = [
    Part("random-trees", check, strategy=lambda ctx: cases(PROFILE), budget={"quick": 400, "thorough": 2500}),
    Part("lazy-coalesce", check, strategy=lambda ctx: lazy_cases(), budget={"quick": 150, "thorough": 800}),
]
