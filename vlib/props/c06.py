"""C06 — laziness: only bodies on the selected path run, and only when evaluated."""
from __future__ import annotations

from hypothesis import strategies as st

from .. import specgen, universe as U
from ..build import build, run
from ..harness import Part, Violation
from ..ref import Ref

PID = "C06"
LEVEL = "exploration"
RULE = ("part 'evaluation': program specs whose bodies / default factories log their execution x option dictionaries, each "
        "evaluated on a cold fresh build: the log must be empty right after construction; on success every body the "
        "reference needs on the selected path ran and nothing outside the set the eager computation may touch ran (no "
        "unselected switch/case/overload branch, no coalesce member after the first success, no default factory of a "
        "present key); every body ran after the bodies of its direct dataset arguments; for x >> step(p) the dataset "
        "producing x ran before the dataset producing the step's parameter. On failure only 'nothing outside the "
        "may-set ran' is required. part 'construction': generated scripts of definition-time operations (decorators, "
        "overload/register, with_options, pipeline +, >>, where, interface / implementation / dataset-class definition, "
        "namespaces) over logging bodies must leave the log empty. Non-trivial (evaluation) = the reference says at least "
        "one body of the program must NOT run while at least one does; (construction) = script of >=3 operations.")
ASSUMPTIONS = [
    "reference interpreter vlib/ref.py computes must-run and may-run sets",
    "cold (fresh) builds only; bodies total",
]


def all_bodies(spec):
    out = set()
    for d in spec["defs"]:
        if not d.get("abstract"):
            out.add(d["name"])
        for ov in d.get("overloads", []):
            if isinstance(ov[1], dict) and ov[1].get("k") == "ovfn":
                out.add(ov[1]["name"])
    return out


def check(case, ctx):
    spec = specgen.normalise(case["spec"], ctx.flags, ctx)
    ref = Ref(spec)
    if specgen.k6_excluded(ctx, ref, case["options"], single_evaluation=True):
        ctx.done(case, False, ["excluded-K6"])
        return
    labels = set()
    nontrivial = False
    bodies = all_bodies(spec)
    defs = {d["name"]: d for d in spec["defs"]}
    for o in case["options"]:
        G = build(spec)
        if G.log:
            raise Violation("ran-at-construction", f"building the graph ran {G.log[:5]}")
        r = ref.run(o)
        lab = run(G.root.evaluate, o)
        if lab.ok != r.ok:
            raise Violation("outcome", f"options={o}: labrea {lab!r} but reference {r!r}")
        ran = [e[1] for e in G.log if e[0] == "body"]
        ran_set = set(ran)
        extra = ran_set - r.touched
        if extra:
            raise Violation("ran-unneeded-body", f"options={o}: bodies {sorted(extra)} ran but the eager computation never touches them "
                                                 f"(may-set {sorted(r.touched)})")
        # a coalesce member that cannot be evaluated is rejected by validation: of its bodies only those that
        # compute a branch-selecting value may run
        illegal = ran_set & (r.failed_member_bodies - r.choosers - r.must - specgen.static_choosers(spec))
        if illegal:
            raise Violation("ran-body-of-unselected-coalesce-member", f"options={o}: bodies {sorted(illegal)} belong to a coalesce member that "
                                                                      f"cannot be evaluated and was not selected, yet they ran: {ran}")
        fact_ran = {e[1] for e in G.log if e[0] == "factory"}
        fact_ref = {e[1] for e in r.full_log if e[0] == "factory"}
        if fact_ran - fact_ref:
            raise Violation("ran-unneeded-default", f"options={o}: default factories for {sorted(fact_ran - fact_ref)} ran; reference used {sorted(fact_ref)}")
        if r.ok:
            missing = r.must - ran_set
            if missing:
                raise Violation("needed-body-did-not-run", f"options={o}: bodies {sorted(missing)} are needed but did not run (ran {ran})")
            ref_order = [e[1] for e in r.log if e[0] == "body"]   # the eager computation's own order
            first = {}
            for i, b in enumerate(ran):
                first.setdefault(b, i)
            # arguments before body
            for name, d in defs.items():
                if name not in first:
                    continue
                for p in d.get("params", []):
                    if p["k"] == "ref" and p["name"] != name and p["name"] in r.must and p["name"] in first and \
                            ran.count(name) == 1 and ran.count(p["name"]) == 1 and \
                            ref_order.count(name) == 1 and ref_order.count(p["name"]) == 1 and \
                            ref_order.index(p["name"]) < ref_order.index(name):
                        labels.add("arg-order-checked")
                        if first[p["name"]] > first[name]:
                            raise Violation("body-before-argument", f"options={o}: body {name} ran before its argument {p['name']}: {ran}")

            # source of >> before the step's own dependencies (only when each dataset is used exactly once in the
            # program, so that its first run is attributable to this application)
            refcount = {}
            specgen.walk(spec, lambda n: refcount.__setitem__(n.get("name") or n.get("base"), refcount.get(n.get("name") or n.get("base"), 0) + 1)
                         if n["k"] in ("ref", "derived") else None)

            def f(n):
                if n["k"] == "apply" and "step" in n["fn"] and n["src"]["k"] == "ref" and n["fn"]["param"]["k"] == "ref":
                    x, y = n["src"]["name"], n["fn"]["param"]["name"]
                    if x != y and x in first and y in first and x in r.must and y in r.must and \
                            refcount.get(x) == 1 and refcount.get(y) == 1 and ran.count(x) == 1 and ran.count(y) == 1 and \
                            ref_order.count(x) == 1 and ref_order.count(y) == 1 and \
                            not depends_on(defs, x, y) and not depends_on(defs, y, x):
                        labels.add("apply-order-checked")
                        if first[x] > first[y]:
                            raise Violation("step-before-input", f"options={o}: in {x} >> step(p={y}) the step's parameter {y} was produced "
                                                                 f"before the input {x}: {ran}")
            specgen.walk(spec, f)
            if (bodies - r.touched) and ran_set:
                nontrivial = True
        labels |= r.labels
    ctx.done(case, nontrivial, labels)


def depends_on(defs, a, b, seen=None):
    """does dataset a's definition mention dataset b (transitively)?"""
    seen = seen or set()
    if a in seen:
        return False
    seen.add(a)
    found = []
    specgen.walk(defs[a], lambda n: found.append(n.get("name") or n.get("base")) if n["k"] in ("ref", "derived") else None)
    return b in found or any(depends_on(defs, x, b, seen) for x in found if x in defs)


@st.composite
def cases(draw, prof):
    spec = draw(specgen.specs(prof))
    if len(spec["defs"]) >= 2 and draw(st.booleans()):
        # make "input of >> before the step applied to it" observable: input and step parameter are datasets
        a, b = draw(st.permutations(spec["defs"]))[:2]
        extra = {"k": "apply", "src": {"k": "ref", "name": a["name"]}, "fn": {"step": "pair", "param": {"k": "ref", "name": b["name"]}}}
        spec = dict(spec, root={"k": "tuple", "items": [extra, spec["root"]] if draw(st.booleans()) else [spec["root"], extra]})
    if spec["defs"] and draw(st.integers(0, 2)) == 0:
        # a coalesce whose first member reaches a dataset before it needs an option that may be missing
        a = draw(st.sampled_from(spec["defs"]))
        member = {"k": draw(st.sampled_from(["list", "tuple"])), "items": [{"k": "ref", "name": a["name"]}, {"k": "opt", "key": draw(st.sampled_from(U.FLAT + ["S.X"]))}]}
        extra = {"k": "coalesce", "members": [member, {"k": "val", "v": "fallback"}]}
        spec = dict(spec, root={"k": "tuple", "items": [extra, spec["root"]]})
    hashable_defs = [d for d in spec["defs"] if d["body"] == "first"]     # (their values can select a branch)
    if hashable_defs and draw(st.integers(0, 2)) == 0:
        # a coalesce that succeeds at an early member and has a LATER member whose path is chosen by a dataset, reached by the
        # validation pass of an enclosing coalesce (nested directly, as a dataset argument, or as an Option's default)
        a = draw(st.sampled_from(hashable_defs))
        ds_ref = {"k": "ref", "name": a["name"]}
        later = draw(st.sampled_from([
            {"k": "switch", "disp": ds_ref, "lookup": [[1, {"k": "val", "v": "one"}]], "default": {"k": "val", "v": "other"}},
            {"k": "case", "disp": ds_ref, "cases": [[{"p": "is_none"}, {"k": "val", "v": "none"}]], "default": {"k": "val", "v": "some"}},
            {"k": "bind", "src": ds_ref, "table": [[1, {"k": "val", "v": "one"}]], "else": {"k": "val", "v": "other"}}]))
        early = draw(st.sampled_from([{"k": "val", "v": "early"}, {"k": "opt", "key": "A", "default": {"t": "const", "v": "early"}}, {"k": "opt", "key": "B"}]))
        inner = {"k": "coalesce", "members": [early, later]}
        how = draw(st.sampled_from(["nested", "argument", "default"]))
        if how == "nested":
            outer = {"k": "coalesce", "members": [inner, {"k": "val", "v": "fallback"}]}
        elif how == "argument":
            outer = {"k": "coalesce", "members": [{"k": "tuple", "items": [inner, {"k": "opt", "key": "C", "default": {"t": "const", "v": 0}}]}, {"k": "val", "v": "fallback"}]}
        else:
            outer = {"k": "coalesce", "members": [{"k": "opt", "key": "E", "default": {"t": "node", "n": inner}}, {"k": "val", "v": "fallback"}]}
        spec = dict(spec, root={"k": "tuple", "items": [outer, spec["root"]]})
    opts = [draw(U.option_dicts(p_present=draw(st.sampled_from([0.5, 0.8, 0.95])))) for _ in range(2)]
    return {"spec": spec, "options": opts}


# ---- construction scripts ---------------------------------------------------------------------------------
OPS = ["dataset", "dataset_kw", "overload", "register", "with_options", "with_default_options", "where", "pipeline_add",
       "rshift", "apply", "bind", "switch", "case", "coalesce", "collections", "map", "template", "cached", "interface",
       "implementation", "datasetclass", "namespace", "set_dispatch", "add_effects"]


def run_script(ops):
    """Interpret a construction script with logging bodies; return the log."""
    import labrea
    import labrea.functions as F
    from labrea import (Map, Option, Template, WithOptions, abstractdataset, cached, case, coalesce, dataset, datasetclass,
                        evaluatable_dict, evaluatable_list, implements, interface, pipeline_step, switch)
    log = []

    def body(tag):
        def f(*a, **k):
            log.append(("body", tag))
            return tag
        return f

    def body0(tag):
        def f():
            log.append(("body", tag))
            return tag
        return f

    pool = []   # datasets
    things = [Option("A"), Option("B", 1)]  # evaluatables
    ifaces = []
    n = [0]

    def new_ds(**kw):
        n[0] += 1
        tag = f"c{n[0]}"
        dep = things[-1]

        def fn(x=dep, y=Option("K", default_factory=body("factory-" + tag))):
            log.append(("body", tag))
            return (tag, x, y)
        fn.__name__ = fn.__qualname__ = tag
        d = dataset(**kw)(fn) if kw else dataset(fn)
        pool.append(d)
        things.append(d)
        return d

    new_ds()
    for op, a, b in ops:
        d = pool[a % len(pool)]
        t = things[b % len(things)]
        if op == "dataset":
            new_ds()
        elif op == "dataset_kw":
            new_ds(dispatch="K", options={"A": 1}, default_options={"B": 2}, callback=body("cb"), effects=[body("eff")])
        elif op == "overload":
            if d.overloads.dispatch == labrea.types.Value(labrea._missing.MISSING):
                d.set_dispatch(Option("K"))
            n[0] += 1
            tag = f"ov{n[0]}"

            def ov(x=t):
                log.append(("body", tag))
                return tag
            ov.__name__ = tag
            things.append(d.overload([a, "x"] if b % 2 else a)(ov))
        elif op == "register":
            if d.overloads.dispatch == labrea.types.Value(labrea._missing.MISSING):
                d.set_dispatch(Option("K"))
            d.register(b, t)
        elif op == "set_dispatch":
            d.set_dispatch(pool[b % len(pool)] if b % 2 else Option("R.K"))
        elif op == "add_effects":
            d.add_effects(body("eff2"))
        elif op == "with_options":
            things.append(d.with_options({"A": b}))
        elif op == "with_default_options":
            things.append(d.with_default_options({"S": {"X": b}}))
        elif op == "where":
            n[0] += 1
            tag = f"w{n[0]}"

            def wfn(p, q=1):
                log.append(("body", tag))
                return tag
            things.append(dataset.where(p=t)(wfn))
        elif op == "pipeline_add":
            s1 = pipeline_step(lambda x, p=t: (log.append(("body", "step")), x)[1])
            things.append(d >> (s1 + F.eq(t) + body("plainstep")))
        elif op == "rshift":
            things.append(t >> body("rshift-fn"))
        elif op == "apply":
            things.append(t.apply(d >> (lambda v: body("made-fn"))))
        elif op == "bind":
            things.append(t.bind(lambda v: d))
        elif op == "switch":
            things.append(switch(Option("K"), {1: d, 2: t}, things[0]))
        elif op == "case":
            things.append(case(t).when(F.eq(d), d).when(body("pred"), t).otherwise(d))
        elif op == "coalesce":
            things.append(coalesce(d, t))
        elif op == "collections":
            things.append(evaluatable_dict({"x": evaluatable_list(d, t)}))
        elif op == "map":
            things.append(Map(d, {"A": t}).values)
        elif op == "template":
            things.append(Template("{A}{:p:}", p=d))
        elif op == "cached":
            things.append(cached(t))
        elif op == "interface":
            n[0] += 1
            tag = f"i{n[0]}"

            def m_default():
                log.append(("body", tag + ".m_default"))
                return 1

            def m_abs():
                log.append(("body", tag + ".m_abs"))
            cls = type(tag, (), {"__annotations__": {"m_ann": int}, "m_default": dataset(m_default), "m_plain": staticmethod(body0(tag + ".m_plain")),
                                 "m_abs": abstractdataset(m_abs), "m_eval": t, "m_const": 5})
            ifaces.append(interface("K" if b % 2 else d)(cls))
        elif op == "implementation":
            if ifaces:
                iface = ifaces[a % len(ifaces)]
                n[0] += 1
                tag = f"impl{n[0]}"
                from labrea.dataset import Dataset
                members = {}
                for mname, member in vars(iface).items():
                    if mname.startswith("_") or not isinstance(member, Dataset):
                        continue
                    if member.is_abstract or (len(mname) + b) % 3 == 0:
                        members[mname] = [t, staticmethod(body0(f"{tag}.{mname}")), d, 6][(len(mname) + a) % 4]
                cls = type(tag, (), members)
                if b % 2:
                    iface.implementation(f"alias{n[0]}")(cls)
                else:
                    implements(iface, alias=[f"alias{n[0]}", b])(cls)
                things.append(iface.m_ann)
        elif op == "datasetclass":
            n[0] += 1
            cls = type(f"DC{n[0]}", (), {"__annotations__": {"x": int, "y": int}, "x": d, "y": 3, "z": t})
            things.append(datasetclass(cls))
        elif op == "namespace":
            n[0] += 1
            cls = type(f"NS{n[0]}", (), {"__annotations__": {"P": int}, "Q": 1, "R": Option.auto(default=d) >> body("tf"),
                                         "SUB": type("SUB", (), {"__annotations__": {"V": str}})})
            ns = Option.namespace(cls)
            things.append(ns.R)
            things.append(ns)
        # representation and doc access are definition-time conveniences too
        repr(things[-1])
    return log, len(things)


def check_construction(case, ctx):
    ops = [tuple(x) for x in case["ops"]]
    log, n = run_script(ops)
    if log:
        raise Violation("ran-at-construction", f"script {ops} ran {log[:5]}")
    ctx.done(case, len(ops) >= 3, ["op:" + o for o, _, _ in ops])


def scripts():
    return st.fixed_dictionaries({"ops": st.lists(st.tuples(st.sampled_from(OPS), st.integers(0, 7), st.integers(0, 9)).map(list),
                                                  min_size=1, max_size=14)})


PROFILE = specgen.profile(domain_rate=0.0)
PARTS = [
    Part("evaluation", check, strategy=lambda ctx: cases(PROFILE), budget={"quick": 700, "thorough": 2500}),
    Part("construction", check_construction, strategy=lambda ctx: scripts(), budget={"quick": 100, "thorough": 500}),
]
