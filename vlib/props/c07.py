"""C07 — overload and interface dispatch select exactly the registered implementation."""
from __future__ import annotations

import copy
import itertools

from hypothesis import strategies as st
from labrea import Option, abstractdataset, dataset, implements, interface
from labrea.types import Value

from .. import sem, specgen, universe as U
from ..build import build, run
from ..harness import Part, Violation, canon
from ..ref import Ref

PID = "C07"
LEVEL = "exploration"
RULE = ("part 'histories': a generated program whose datasets all read a nonce option, plus a history of operations "
        "overload(alias | [aliases]) with a decorated function, register(alias, expression), overload of an existing "
        "dataset (stacked), set_dispatch(key | expression), evaluate(o) is applied to ONE live build and, in step, to a "
        "model (the program spec itself, mutated); every evaluation with a fresh nonce must equal the reference of the "
        "model exactly (so late registrations apply, callbacks apply to every implementation, the default serves "
        "unregistered / undeterminable dispatch values, abstract datasets fail), an evaluation repeating an earlier "
        "dictionary verbatim may also return what was returned then; overload() on a dataset without dispatch must raise "
        "ValueError. part 'interfaces': generated interface definitions (annotation / abstract / defaulted dataset / "
        "evaluatable / constant members), 1-2 interfaces, implementations (valid, missing-abstract, unknown-member, "
        "members in every declaration order, list aliases, multi-interface) and dictionaries: under one dictionary all "
        "members resolve to the same alias, un-overridden members use the interface default, an invalid implementation "
        "raises TypeError at definition and leaves every member's table unchanged. part 'derived': copies of one dataset "
        "are made with with_options / with_default_options, THEN implementations are registered (overload decorator or "
        "register) on the parent or through a copy, and parent and copies are evaluated with fresh nonces against one "
        "shared registry model under the overlaid dictionary (non-trivial = a copy made before a registration selects "
        "that registration). Non-trivial (histories) = a "
        "registration after an evaluation and >=2 dispatch values evaluated; (interfaces) = >=2 implementations incl. "
        "an invalid one, or >=2 aliases evaluated; distinct = distinct case hash.")
ASSUMPTIONS = [
    "every registered implementation reads the nonce option N, so an evaluation with a fresh nonce cannot be 'already stored'",
    "reference interpreter vlib/ref.py evaluates the mutated model spec",
]

NONCE = {"k": "opt", "key": "N", "default": {"t": "const", "v": 0}}


def add_nonce(spec):
    spec = copy.deepcopy(spec)
    for d in spec["defs"]:
        d["params"] = d.get("params", []) + [copy.deepcopy(NONCE)]
        d.pop("nocache", None)
        for ov in d.get("overloads", []):
            ov[1] = wrap_impl(ov[1])
    return spec


def wrap_impl(impl):
    if isinstance(impl, dict) and impl.get("k") == "ovfn":
        impl = copy.deepcopy(impl)
        impl["params"] = impl["params"] + [copy.deepcopy(NONCE)]
        return impl
    if isinstance(impl, dict) and impl.get("k") == "ref":
        return impl   # an existing dataset: reads the nonce itself
    return {"k": "tuple", "items": [impl, copy.deepcopy(NONCE)]}


def check_history(case, ctx):
    spec = specgen.normalise(add_nonce(case["spec"]), ctx.flags | {"no-allopts"}, ctx)
    model = copy.deepcopy(spec)
    names = [d["name"] for d in model["defs"]]
    G = build(spec)
    labels = set()
    seen = {}
    nonce = 0
    registered_after_eval = False
    evaluated = False
    dispatch_values = set()
    counter = 0
    history = []   # (dictionary with its nonce, model version when first evaluated)
    version = 0
    for i, op in enumerate(case["ops"]):
        kind = op["op"]
        if kind == "eval":
            nonce += 1
            if op.get("verbatim") and history:
                o, version_then = history[op.get("back", 0) % len(history)]
                strict = version_then == version     # nothing was registered since: must equal the model
            else:
                o, strict = U.dotted_set(op["o"], "N", nonce), True
                history.append((o, version))
            for target in [None] + ([names[op["ds"] % len(names)]] if "ds" in op else []):
                m = copy.deepcopy(model)
                if target is not None:
                    m["root"] = {"k": "ref", "name": target}
                r = Ref(m).run(o)
                if "absorbed-under-cache" in r.labels and "no-coalesce-value-failure" in ctx.flags:
                    ctx.exclude("no-coalesce-value-failure")
                    continue
                obj = G.root if target is None else G.ds[target]
                got = run(obj.evaluate, o)
                key = canon([target, o])
                ok = (got.ok == r.ok) and (not r.ok or got.value == r.value)
                if not ok and not strict:
                    # a verbatim repeat of a dictionary evaluated before a registration: whatever was stored
                    # then (directly or as a dependency) may be returned
                    labels.add("verbatim-repeat-after-registration")
                    ok = not got.raw
                if not ok:
                    raise Violation("dispatch", f"op {i} evaluate {target or 'root'} on {o}: got {got!r} ({got.exc!r}) but the model says {r!r}; "
                                                f"model overloads: { {d['name']: [ov[0] for ov in d.get('overloads', [])] for d in model['defs']} }")
                seen[key] = got.key()
                labels |= {l for l in r.labels if l in ("overload-taken", "dispatch-failed-default", "callback")}
            evaluated = True
            for k_ in ("K", "R.K"):
                v = U.dotted_get(o, k_)
                if v is not U.ABSENT:
                    dispatch_values.add(canon(v))
            continue
        d = model["defs"][op["ds"] % len(names)]
        live = G.ds[d["name"]]
        if kind in ("ovfn", "register", "stack"):
            counter += 1
            if kind == "ovfn":
                impl = {"k": "ovfn", "name": f"{d['name']}_h{counter}", "params": op["params"] + [copy.deepcopy(NONCE)], "body": d["body"]}
            elif kind == "stack":
                other = model["defs"][op["other"] % len(names)]
                if other["name"] == d["name"] or other["body"] != d["body"] or depends(model, other["name"], d["name"]):
                    continue
                impl = {"k": "ref", "name": other["name"]}
            else:
                impl = wrap_impl(op["impl"])
            alias = op["alias"]
            if depends_node(model, impl, d["name"]):
                continue   # would make the dataset depend on itself
            needs_decorator = impl.get("k") in ("ovfn", "ref")
            if "dispatch" not in d and needs_decorator:
                try:
                    G.add_overload(live, alias, impl)
                except ValueError:
                    labels.add("overload-without-dispatch-rejected")
                    continue
                raise Violation("overload-without-dispatch", f"op {i}: overload() on dataset {d['name']} that has no dispatch did not raise ValueError")
            G.add_overload(live, alias, impl)
            d.setdefault("overloads", []).append([alias, impl])
            version += 1
            labels.add("late-" + kind)
            if evaluated:
                registered_after_eval = True
        elif kind == "set_dispatch":
            disp = op["disp"]
            if not isinstance(disp, str) and depends_node(model, disp, d["name"]):
                continue
            live.set_dispatch(Option(disp) if isinstance(disp, str) else G.node(disp))
            d["dispatch"] = disp
            version += 1
            labels.add("set_dispatch")
    ctx.done(case, registered_after_eval and len(dispatch_values) >= 2, labels)


def depends(model, a, b, seen=None):
    seen = seen or set()
    if a in seen:
        return False
    seen.add(a)
    d = [x for x in model["defs"] if x["name"] == a][0]
    found = []
    specgen.walk(d, lambda n: found.append(n.get("name") or n.get("base")) if n["k"] in ("ref", "derived") else None)
    return b in found or any(depends(model, x, b, seen) for x in found if x and x != a and any(y["name"] == x for y in model["defs"]))


def depends_node(model, node, b):
    found = []
    specgen.walk(node, lambda n: found.append(n.get("name") or n.get("base")) if n["k"] in ("ref", "derived") else None)
    return b in found or any(depends(model, x, b) for x in found if x)


@st.composite
def history_cases(draw, prof):
    g = specgen._G(draw, prof)
    spec = g.spec()
    ops = []
    n = draw(st.integers(3, 12))
    base = draw(U.option_dicts(p_present=0.9))
    dicts = [base]
    for _ in range(n):
        kind = draw(st.sampled_from(["eval", "eval", "eval", "ovfn", "register", "register", "stack", "set_dispatch"]))
        ds = draw(st.integers(0, 5))
        hashable = spec["defs"][ds % len(spec["defs"])]["body"] == "first"
        if kind == "eval":
            if draw(st.integers(0, 4)) == 0 and len(dicts) > 1:
                o = draw(st.sampled_from(dicts))
                ops.append({"op": "eval", "o": o, "ds": ds, "verbatim": True, "back": draw(st.integers(0, 10))})
            else:
                o, _ = draw(U.edit_dict(draw(st.sampled_from(dicts)), allow_unmentioned=False))
                if draw(st.booleans()):
                    o = U.dotted_set(o, draw(st.sampled_from(U.DISPATCH_KEYS)), draw(st.sampled_from(U.HASHABLE_DISPATCH)))
                dicts.append(o)
                ops.append({"op": "eval", "o": o, "ds": ds})
        elif kind == "ovfn":
            alias = draw(st.sampled_from(U.HASHABLE_DISPATCH))
            if draw(st.integers(0, 3)) == 0:
                alias = [alias, draw(st.sampled_from(U.HASHABLE_DISPATCH))]
            ops.append({"op": "ovfn", "ds": ds, "alias": alias, "params": [g.node(1, hashable=hashable) for _ in range(draw(st.integers(0, 2)))]})
        elif kind == "register":
            ops.append({"op": "register", "ds": ds, "alias": draw(st.sampled_from(U.HASHABLE_DISPATCH)), "impl": g.node(1, hashable=hashable)})
        elif kind == "stack":
            ops.append({"op": "stack", "ds": ds, "other": draw(st.integers(0, 5)), "alias": draw(st.sampled_from(U.HASHABLE_DISPATCH))})
        else:
            disp = draw(st.sampled_from(U.DISPATCH_KEYS)) if draw(st.booleans()) else g.opt(hashable=True)
            ops.append({"op": "set_dispatch", "ds": ds, "disp": disp})
    return {"spec": spec, "ops": ops}


# ---- interfaces -----------------------------------------------------------------------------------------------------
MEMBERS = ["m1", "m2", "m3", "m4"]


def build_interface(idef, tagp, log):
    ns = {"__annotations__": {}}
    for m in idef["members"]:
        k, name = m["kind"], m["name"]
        if k == "ann":
            ns["__annotations__"][name] = int
        elif k == "abstract":
            def f():
                pass
            f.__name__ = name
            ns[name] = abstractdataset(f)
        elif k == "default_ds":
            def g(x=Option("X", 0), _n=name):
                log.append(("body", f"{tagp}.{_n}"))
                return ("idefault", tagp, _n, x)
            g.__name__ = name
            ns[name] = dataset(g)
        elif k == "default_ds_cb":
            # a member that is a dataset with a callback: the callback applies to every implementation of the member
            def g2(x=Option("X", 0), _n=name):
                log.append(("body", f"{tagp}.{_n}"))
                return ("idefault", tagp, _n, x)
            g2.__name__ = name
            ns[name] = dataset(callback=(lambda _n: (lambda v: ("cb", _n, v)))(name))(g2)
        elif k == "default_fn":
            def h(_n=name):
                return ("idefault", tagp, _n, "fn")
            h.__name__ = name
            ns[name] = staticmethod(h)
        elif k == "default_eval":
            ns[name] = Option("Y", ("idefault", tagp, name, "opt"))
        elif k == "const":
            ns[name] = ("idefault", tagp, name, "const")
    cls = type(tagp, (), ns)
    if isinstance(idef["dispatch"], list):
        # a composite dispatch value: a tuple of options
        from labrea.collections import evaluatable_tuple
        return interface(evaluatable_tuple(*[Option(k) for k in idef["dispatch"]]))(cls)
    return interface(idef["dispatch"])(cls)


def expected_default(idef, tagp, name, o):
    m = [x for x in idef["members"] if x["name"] == name][0]
    k = m["kind"]
    if k in ("ann", "abstract"):
        return None
    if k == "default_ds":
        x = U.dotted_get(o, "X")
        return ("idefault", tagp, name, 0 if x is U.ABSENT else x)
    if k == "default_ds_cb":
        x = U.dotted_get(o, "X")
        return ("cb", name, ("idefault", tagp, name, 0 if x is U.ABSENT else x))
    if k == "default_fn":
        return ("idefault", tagp, name, "fn")
    if k == "default_eval":
        y = U.dotted_get(o, "Y")
        return ("idefault", tagp, name, "opt") if y is U.ABSENT else y
    return ("idefault", tagp, name, "const")


def member_value(kind, tag, name):
    if kind == "fn":
        def f(_t=tag, _n=name):
            return ("impl", _t, _n, "fn")
        f.__name__ = name
        return staticmethod(f), ("impl", tag, name, "fn")
    if kind == "ds":
        def g(_t=tag, _n=name):
            return ("impl", _t, _n, "ds")
        g.__name__ = name
        return dataset(g), ("impl", tag, name, "ds")
    if kind == "const":
        return ("impl", tag, name, "const"), ("impl", tag, name, "const")
    return Value(("impl", tag, name, "value")), ("impl", tag, name, "value")


def check_interfaces(case, ctx):
    log = []
    idefs = case["interfaces"]
    ifaces = [build_interface(d, f"I{j}", log) for j, d in enumerate(idefs)]
    if log:
        raise Violation("ran-at-definition", f"defining interfaces ran {log}")
    # model: per (interface idx, member) -> {alias: expected value}
    table = {(j, m["name"]): {} for j, d in enumerate(idefs) for m in d["members"]}
    labels = set()
    n_valid = n_invalid = 0
    for t, impl in enumerate(case["impls"]):
        targets = sorted({x % len(ifaces) for x in impl["interfaces"]})
        member_names = {}
        for j in targets:
            for m in idefs[j]["members"]:
                member_names.setdefault(m["name"], []).append(j)
        provided = [m for m in impl["members"] if True]
        abstract_needed = {m["name"] for j in targets for m in idefs[j]["members"] if m["kind"] in ("ann", "abstract")}
        names_given = [m["name"] for m in provided]
        unknown = [nm for nm in names_given if nm not in member_names]
        missing = abstract_needed - set(names_given)
        ns = {}
        expected_vals = {}
        for m in provided:
            val, exp = member_value(m["kind"], f"impl{t}", m["name"])
            ns[m["name"]] = val
            expected_vals[m["name"]] = exp
        aliases = [sem.alias_value(a) for a in impl["aliases"]]
        if any(isinstance(a, tuple) for a in aliases):
            labels.add("tuple-valued-alias")
        before = {(j, nm): dict(getattr(ifaces[j], nm).overloads.lookup) for (j, nm) in table}
        cls = type(f"Impl{t}", (), ns)
        try:
            if len(targets) == 1 and impl.get("via_interface"):
                ifaces[targets[0]].implementation(aliases if len(aliases) > 1 else aliases[0])(cls)
            else:
                implements(*[ifaces[j] for j in targets], alias=aliases if len(aliases) > 1 else aliases[0])(cls)
            raised = None
        except TypeError as e:
            raised = e
        should_fail = bool(unknown or missing)
        if should_fail:
            n_invalid += 1
            labels.add("invalid:" + ("unknown" if unknown else "missing"))
            if raised is None:
                raise Violation("invalid-implementation-accepted", f"implementation {t} (unknown={unknown}, missing={sorted(missing)}) was accepted")
            after = {(j, nm): dict(getattr(ifaces[j], nm).overloads.lookup) for (j, nm) in table}
            changed = [k for k in table if set(before[k]) != set(after[k])]
            if changed:
                raise Violation("rejected-implementation-registered", f"implementation {t} was rejected ({raised}) but registered aliases on {changed}: "
                                                                      f"{ {k: sorted(map(str, set(after[k]) - set(before[k]))) for k in changed} }")
            continue
        if raised is not None:
            raise Violation("valid-implementation-rejected", f"implementation {t} members={names_given} targets={targets}: {raised!r}")
        n_valid += 1
        for nm in names_given:
            for j in member_names[nm]:
                kind_j = [m["kind"] for m in idefs[j]["members"] if m["name"] == nm][0]
                for a in aliases:
                    table[(j, nm)][a] = ("cb", nm, expected_vals[nm]) if kind_j == "default_ds_cb" else expected_vals[nm]
                    if kind_j == "default_ds_cb":
                        labels.add("callback-member-overridden")
    # evaluations
    aliases_seen = set()
    for o in case["options"]:
        for j, d in enumerate(idefs):
            if isinstance(d["dispatch"], list):
                parts = [U.dotted_get(o, k) for k in d["dispatch"]]
                disp = U.ABSENT if any(x is U.ABSENT for x in parts) else tuple(parts)
            else:
                disp = U.dotted_get(o, d["dispatch"])
            for m in d["members"]:
                member = getattr(ifaces[j], m["name"])
                got = run(member.evaluate, o)
                tbl = table[(j, m["name"])]
                if disp is not U.ABSENT and disp in tbl:
                    exp = tbl[disp]
                    aliases_seen.add(canon(disp))
                else:
                    exp = expected_default(d, f"I{j}", m["name"], o)
                if exp is None:
                    if got.ok:
                        raise Violation("abstract-member-evaluated", f"I{j}.{m['name']} on {o}: abstract member without implementation for {disp!r} gave {got.value}")
                else:
                    if not got.ok or got.value != sem.typed(exp):
                        raise Violation("interface-dispatch", f"I{j}.{m['name']} on {o} (dispatch {disp!r}): got {got!r} expected {sem.typed(exp)}; table {sorted(map(str, tbl))}")
    ctx.done(case, (n_valid + n_invalid >= 2 and n_invalid >= 1) or len(aliases_seen) >= 2, labels | {f"valid={min(n_valid, 3)}"})


@st.composite
def interface_cases(draw):
    n_if = draw(st.integers(1, 2))
    idefs = []
    for j in range(n_if):
        names = draw(st.lists(st.sampled_from(MEMBERS), min_size=1, max_size=4, unique=True))
        idefs.append({"dispatch": draw(st.sampled_from(["K", "R.K", "K", "R.K", ["K", "R.K"]])),
                      "members": [{"name": nm, "kind": draw(st.sampled_from(["ann", "abstract", "default_ds", "default_ds_cb", "default_fn", "default_eval", "const"]))} for nm in names]})
    impls = []
    for t in range(draw(st.integers(1, 4))):
        targets = draw(st.lists(st.integers(0, n_if - 1), min_size=1, max_size=2))
        pool = sorted({m["name"] for j in targets for m in idefs[j % n_if]["members"]})
        mode = draw(st.sampled_from(["valid", "valid", "valid", "missing", "unknown"]))
        abstract = sorted({m["name"] for j in targets for m in idefs[j % n_if]["members"] if m["kind"] in ("ann", "abstract")})
        optional = [nm for nm in pool if nm not in abstract]
        chosen = list(abstract) + [nm for nm in optional if draw(st.booleans())]
        if mode == "missing" and abstract:
            chosen.remove(draw(st.sampled_from(abstract)))
        if mode == "unknown":
            chosen.append("zz_unknown")
        chosen = list(draw(st.permutations(chosen)))
        composite = any(isinstance(idefs[j % n_if]["dispatch"], list) for j in targets)
        pool_a = ["a", "b", 1, 2] + ([{"tuple": ["a", 1]}, {"tuple": ["b", "a"]}, {"tuple": ["a", 1]}, {"tuple": [1, 2]}] if composite else [])
        impls.append({"interfaces": targets, "aliases": draw(st.lists(st.sampled_from(pool_a), min_size=1, max_size=2, unique_by=repr)),
                      "members": [{"name": nm, "kind": draw(st.sampled_from(["fn", "ds", "const", "value"]))} for nm in chosen],
                      "via_interface": draw(st.booleans())})
    opts = []
    for _ in range(4):
        o = {}
        for key in ("K", "R.K"):
            if draw(st.integers(0, 3)) > 0:
                o = U.dotted_set(o, key, draw(st.sampled_from(["a", "b", 1, 2, None, "zz"])))
        if draw(st.booleans()):
            o["X"] = draw(st.sampled_from([1, 2]))
        if draw(st.integers(0, 3)) == 0:
            o["Y"] = "y"
        opts.append(o)
    tuples = [a["tuple"] for im in impls for a in im["aliases"] if isinstance(a, dict)]
    for tp in tuples[:2]:
        # dictionaries whose composite dispatch value is a registered tuple alias, and near misses of it
        opts.append({"K": tp[0], "R": {"K": tp[1]}})
        opts.append({"K": tp[0], "R": {"K": draw(st.sampled_from(["a", "b", 1, 2]))}})
        opts.append({"K": tp[0]})
    return {"interfaces": idefs, "impls": impls, "options": opts}



# ---- part 'derived': copies made by with_options / with_default_options BEFORE a registration -------------------------
# (seeded change C07-agent6: the constructor took a private copy of the overload table, so a registration made on the
# parent after a copy had been derived never reached the copy, and one made through the copy never reached the parent)
D_ALIASES = ["a", "b", 1]
D_PRESETS = [{"K": "a"}, {"K": "b"}, {"K": 1}, {"Z": 0}, {"K": "zz"}, {}]


def _mk_impl(tag):
    def impl(n=Option("N")):
        return (tag, n)
    impl.__name__ = "impl_%s" % tag
    return impl


def check_derived(case, ctx):
    ops = case["ops"]
    if not isinstance(ops, list) or not all(isinstance(op, dict) and "op" in op for op in ops):
        ctx.done(case, False, ["malformed"])
        return
    if any(not isinstance(d.get("K", 0), (str, int)) for op in ops for d in (op.get("o", {}), op.get("preset", {}))):
        ctx.done(case, False, ["malformed"])  # (the reducer may put an unhashable dispatch value there)
        return
    disp = Option("K") if case["dispatch"] == "option" else (Option("K", "a") if case["dispatch"] == "defaulted" else "K")
    kw = {"callback": (lambda v: ("cb",) + tuple(v))} if case.get("callback") else {}

    @dataset(dispatch=disp, **kw)
    def base(n=Option("N")):
        return ("default", n)

    objs = [(base, None, None)]          # (dataset, kind, preset)
    table = {}                           # the ONE registry every copy shares
    nonce = 0
    labels = set()
    derived_before_registration = evaluated_copy_after = False
    for i, op in enumerate(ops):
        if op["op"] == "derive":
            src, kind, preset = objs[op["src"] % len(objs)][0], op["kind"], copy.deepcopy(op["preset"])
            if objs[op["src"] % len(objs)][1] is not None:
                src = base                # one layer only: stacking of layers is C08's subject
            objs.append((getattr(src, kind)(preset), kind, op["preset"]))
        elif op["op"] == "register":
            target = objs[op["target"] % len(objs)][0]
            alias = tuple(op["alias"]) if isinstance(op["alias"], list) else op["alias"]
            tag = "t%d" % i
            if op["how"] == "overload":
                target.overload(alias)(_mk_impl(tag))
            else:
                target.register(alias, dataset(_mk_impl(tag)))
            table[alias] = tag
            if len(objs) > 1:
                derived_before_registration = True
                labels.add("registered-on-" + ("copy" if objs[op["target"] % len(objs)][1] else "parent"))
        else:
            obj, kind, preset = objs[op["obj"] % len(objs)]
            nonce += 1
            o = dict(copy.deepcopy(op["o"]), N=nonce)
            eff = dict(o)
            if kind == "with_options":
                eff.update(preset)
            elif kind == "with_default_options":
                eff = dict(preset, **o)
            if "K" in eff:
                v = tuple(eff["K"]) if isinstance(eff["K"], list) else eff["K"]
            else:
                v = "a" if case["dispatch"] == "defaulted" else None
            want = (table.get(v, "default") if v is not None else "default", nonce)
            if case.get("callback"):
                want = ("cb",) + want
            got = run(obj.evaluate, o)
            if not got.ok or got.value != sem.typed(want):
                raise Violation("derived-copy-vs-registry",
                                f"op {i}: {'copy made by ' + kind + '(' + repr(preset) + ')' if kind else 'parent'} on {o} "
                                f"(dispatch value {v!r}, registry {table}) gave {got!r} ({got.exc!r}), expected {want}")
            if kind and derived_before_registration and v in table:
                evaluated_copy_after = True
                labels.add("copy-sees-late-registration")
    ctx.done(case, evaluated_copy_after, labels)


@st.composite
def derived_cases(draw):
    n = draw(st.integers(3, 10))
    ops = [{"op": "derive", "src": 0, "kind": draw(st.sampled_from(["with_options", "with_default_options"])),
            "preset": draw(st.sampled_from(D_PRESETS))}]
    for _ in range(n):
        k = draw(st.sampled_from(["derive", "register", "register", "evaluate", "evaluate", "evaluate"]))
        if k == "derive":
            ops.append({"op": "derive", "src": draw(st.integers(0, 3)), "kind": draw(st.sampled_from(["with_options", "with_default_options"])),
                        "preset": draw(st.sampled_from(D_PRESETS))})
        elif k == "register":
            a = draw(st.sampled_from(D_ALIASES))
            ops.append({"op": "register", "target": draw(st.integers(0, 3)), "alias": list(a) if isinstance(a, tuple) else a,
                        "how": draw(st.sampled_from(["overload", "register"]))})
        else:
            o = draw(st.sampled_from([{}, {"K": "a"}, {"K": "b"}, {"K": 1}, {"K": "zz"}, {"K": 0}, {"Z": 1}]))
            ops.append({"op": "evaluate", "obj": draw(st.integers(0, 3)), "o": o})
    return {"dispatch": draw(st.sampled_from(["option", "defaulted", "key"])), "callback": draw(st.booleans()), "ops": ops}


# derived=False and self_overload=0: set_dispatch / register on a dataset do not reach copies derived from it earlier
# (documented as stateful), so copies (also those inside self-referential overloads) are not generated here
PROFILE = specgen.profile(depth=2, domain_rate=0.0, max_defs=4, effects=True, lazy_root=False, total_preds=True, derived=False, self_overload=0, dclass=False)
PARTS = [
    Part("histories", check_history, strategy=lambda ctx: history_cases(PROFILE), budget={"quick": 250, "thorough": 1500}),
    Part("interfaces", check_interfaces, strategy=lambda ctx: interface_cases(), budget={"quick": 500, "thorough": 3000}),
    Part("derived", check_derived, strategy=lambda ctx: derived_cases(), budget={"quick": 600, "thorough": 5000}),
]
