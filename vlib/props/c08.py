"""C08 — pre-set options override, defaults yield, sections merge; inputs never mutated."""
from __future__ import annotations

import copy

from hypothesis import strategies as st
from labrea import WithDefaultOptions, WithOptions, dataset

from .. import sem, specgen, universe as U
from ..build import build, run
from ..harness import Part, Violation
from ..ref import Ref

PID = "C08"
LEVEL = "exploration"
RULE = ("X = the last dataset of a generated program (callbacks, effects, overloads, own cache, dependencies) wrapped in a "
        "generated stack of up to 3 layers drawn from WithOptions / WithDefaultOptions / dataset(options=) / "
        "dataset(default_options=) / with_options / with_default_options, with layer dictionaries P, D and caller "
        "dictionary o drawn to overlap partially inside the same sections. The wrapped object on o must give the outcome "
        "(value or failure, and validate success) that a fresh plain X gives on the dictionary computed by an independent "
        "recursive overlay (P wins, D yields, sections merged key by key); keys(o) of the wrapped object must be "
        "sufficient (restricting o to them preserves the outcome); and o and every layer dictionary must be deep-equal "
        "to their snapshots after evaluate, validate, keys and explain. Non-trivial = two of {o, layer dictionaries} share "
        "a section with different sub-keys, or the stack has >=2 layers; distinct = distinct (spec, layers, o) hash. part "
        "'siblings': two or three objects derived from ONE dataset object (with_options / with_default_options, mostly "
        "giving the same key different values; shared cache) used in a generated order with validate/keys/explain "
        "interleaved: every step must equal a fresh plain X on that step's overlay. Non-trivial there = the siblings "
        "disagree on a leaf and the history switches between them.")
ASSUMPTIONS = [
    "independent overlay in vlib/universe.py (overlay)",
    "stacked dataset-level layers of the same direction (options= then with_options, ...) are generated without "
    "assigning the same leaf twice: which of two such assignments wins is not stated by the property",
]

DATASET_LEVEL = ("ds_options", "ds_default_options", "with_options", "with_default_options")


def leaves(d, prefix=""):
    out = {}
    for k, v in d.items():
        if isinstance(v, dict) and v:
            out.update(leaves(v, prefix + k + "."))
        else:
            out[prefix + k] = v
    return out


def related(a, b):
    return a == b or a.startswith(b + ".") or b.startswith(a + ".")


def effective(layers, o):
    cur = copy.deepcopy(o)
    P_total, D_total = {}, {}
    for ly in layers:  # outer -> inner
        if ly["how"] in ("WithOptions", "redecorate_options"):
            cur = U.overlay(cur, ly["opts"])
        elif ly["how"] in ("WithDefaultOptions", "redecorate_default_options"):
            cur = U.overlay(ly["opts"], cur)
    for ly in layers:
        if ly["how"] in ("ds_options", "with_options"):
            P_total = U.overlay(P_total, ly["opts"])
        elif ly["how"] in ("ds_default_options", "with_default_options"):
            D_total = U.overlay(D_total, ly["opts"])
    return U.overlay(U.overlay(D_total, cur), P_total)


def wrap(spec, layers):
    """Build the wrapped object through the public API; returns (built, object, [layer dict objects])."""
    spec = copy.deepcopy(spec)
    x = spec["defs"][-1]
    x.pop("options", None)
    x.pop("default_options", None)
    held = []
    for ly in layers:
        if ly["how"] == "ds_options":
            x["options"] = U.overlay(x.get("options", {}), ly["opts"])
        elif ly["how"] == "ds_default_options":
            x["default_options"] = U.overlay(x.get("default_options", {}), ly["opts"])
    b = build(spec)
    obj = b.ds[x["name"]]
    for ly in reversed(layers):  # innermost first
        d = copy.deepcopy(ly["opts"])
        if ly["how"] == "with_options":
            obj = obj.with_options(d)
            held.append((d, ly["opts"]))
        elif ly["how"] == "with_default_options":
            obj = obj.with_default_options(d)
            held.append((d, ly["opts"]))
    for ly in reversed(layers):
        d = copy.deepcopy(ly["opts"])
        if ly["how"] == "WithOptions":
            obj = WithOptions(obj, d)
            held.append((d, ly["opts"]))
        elif ly["how"] == "WithDefaultOptions":
            obj = WithDefaultOptions(obj, d)
            held.append((d, ly["opts"]))
        elif ly["how"] == "redecorate_options":
            # the decorator applied to an existing dataset / combinator: a new dataset around it with the options pre-set
            obj = dataset(options=d)(obj)
            held.append((d, ly["opts"]))
        elif ly["how"] == "redecorate_default_options":
            obj = dataset(default_options=d)(obj)
            held.append((d, ly["opts"]))
    return b, obj, held


def plain(spec):
    spec = copy.deepcopy(spec)
    x = spec["defs"][-1]
    x.pop("options", None)
    x.pop("default_options", None)
    b = build(spec)
    return b.ds[x["name"]]


def check(case, ctx):
    spec = specgen.normalise(case["spec"], ctx.flags | {"no-allopts"}, ctx)
    layers, o = case["layers"], case["options"]
    eff = effective(layers, o)
    labels = {f"layers={len(layers)}"} | {ly["how"] for ly in layers}
    # outcome
    _, w, held = wrap(spec, layers)
    o_live = copy.deepcopy(o)
    got = run(w.evaluate, o_live)
    exp = run(plain(spec).evaluate, eff)
    where = f"layers={layers} o={o} -> expected effective options {eff}"
    if got.ok != exp.ok or (got.ok and got.value != exp.value):
        raise Violation("overlay", f"{where}: wrapped gives {got!r} but plain X on the overlay gives {exp!r}")
    _, w2, held2 = wrap(spec, layers)
    o_live2 = copy.deepcopy(o)
    v_got = run(w2.validate, o_live2)
    v_exp = run(plain(spec).validate, eff)
    if v_got.ok != v_exp.ok:
        raise Violation("overlay-validate", f"{where}: wrapped validate {v_got!r} but plain X on the overlay {v_exp!r}")
    # keys sufficiency
    _, w3, held3 = wrap(spec, layers)
    o_live3 = copy.deepcopy(o)
    ks = run(w3.keys, o_live3)
    if ks.ok:
        K = wrap(spec, layers)[1].keys(copy.deepcopy(o))
        for k in K:
            if not U.dotted_has(o, k):
                raise Violation("reported-key-absent", f"{where}: keys {sorted(K)} but {k!r} is not in the caller's dictionary")
        oK = U.restrict(o, K)
        if "no-coalesce-value-failure" in ctx.flags:
            pspec = copy.deepcopy(spec)
            pspec["defs"][-1].pop("options", None)
            pspec["defs"][-1].pop("default_options", None)
            pspec["root"] = {"k": "ref", "name": pspec["defs"][-1]["name"]}
            if any("coalesce-absorbed-value-failure" in Ref(pspec).run(effective(layers, d)).labels for d in (o, oK)):
                ctx.exclude("no-coalesce-value-failure")
                ctx.done(case, False, ["excluded-K6"])
                return
        again = run(wrap(spec, layers)[1].evaluate, oK)
        if again.ok != got.ok or (got.ok and again.value != got.value):
            raise Violation("keys-insufficient", f"{where}: keys {sorted(K)}; on o gives {got!r} but on o|K={oK} gives {again!r}")
    _, w4, held4 = wrap(spec, layers)
    o_live4 = copy.deepcopy(o)
    run(w4.explain, o_live4)
    # no mutation
    for name, live in (("evaluate", o_live), ("validate", o_live2), ("keys", o_live3), ("explain", o_live4)):
        if sem.typed(live) != sem.typed(o):
            raise Violation("caller-dict-mutated", f"{name} changed the caller's dictionary {o} -> {live}")
    for name, hs in (("evaluate", held), ("validate", held2), ("keys", held3), ("explain", held4)):
        for d, orig in hs:
            if sem.typed(d) != sem.typed(orig):
                raise Violation("preset-dict-mutated", f"{name} changed a pre-set/default dictionary {orig} -> {d}")
    dicts = [o] + [ly["opts"] for ly in layers]
    overlap = False
    for i in range(len(dicts)):
        for j in range(i + 1, len(dicts)):
            for s in ("S", "R"):
                a, b_ = dicts[i].get(s), dicts[j].get(s)
                if isinstance(a, dict) and isinstance(b_, dict) and set(leaves(a)) != set(leaves(b_)):
                    overlap = True
    if overlap:
        labels.add("overlap-in-section")
    labels.add("ok" if got.ok else "fail")
    if spec["defs"][-1]["body"] == "tagmut":
        labels.add("body-works-in-place-on-its-arguments")
    ctx.done(case, overlap or len(layers) >= 2, labels)


@st.composite
def layer_dicts(draw):
    n = draw(st.integers(1, 3))
    flat = {}
    for _ in range(n):
        k = draw(st.sampled_from(U.VALUE_KEYS + U.DISPATCH_KEYS + [U.THRESH] + ["S.X", "S.Y", "R.U.V", "R.U.W"]))
        if k in U.DISPATCH_KEYS:
            flat[k] = draw(st.sampled_from(U.HASHABLE_DISPATCH))
        elif k == U.THRESH:
            flat[k] = draw(st.sampled_from(U.THRESH_VALUES))
        else:
            flat[k] = draw(U.leaf_value(k, True))
    return U.nest(flat)


@st.composite
def cases(draw, prof):
    spec = draw(specgen.specs(prof))
    n = draw(st.integers(1, 3))
    layers = []
    taken = {"P": [], "D": []}
    for _ in range(n):
        how = draw(st.sampled_from(["WithOptions", "WithDefaultOptions", "ds_options", "ds_default_options", "with_options", "with_default_options",
                                    "redecorate_options", "redecorate_default_options"]))
        opts = draw(layer_dicts())
        if how in DATASET_LEVEL:
            side = "P" if how in ("ds_options", "with_options") else "D"
            lv = leaves(opts)
            keep = {k: v for k, v in lv.items() if not any(related(k, t) for t in taken[side])}
            if not keep:
                continue
            taken[side] += list(keep)
            opts = U.nest(keep)
        layers.append({"how": how, "opts": opts})
    if draw(st.integers(0, 3)) == 0:
        # two dataset-level layers of the same direction that set DIFFERENT leaves of one section: the later one merges into
        # the section, it does not replace it
        side = draw(st.sampled_from(["P", "D"]))
        hows = ["ds_options", "with_options"] if side == "P" else ["ds_default_options", "with_default_options"]
        sec = draw(st.sampled_from([["S.X", "S.Y", "S.Z"], ["R.U.V", "R.U.W"]]))
        k1, k2 = draw(st.permutations(sec))[:2]
        if not any(related(k, t) for k in (k1, k2) for t in taken[side]):
            layers.append({"how": draw(st.sampled_from(hows)), "opts": U.nest({k1: draw(U.leaf_value(k1, True))})})
            layers.append({"how": "with_options" if side == "P" else "with_default_options", "opts": U.nest({k2: draw(U.leaf_value(k2, True))})})
            taken[side] += [k1, k2]
    if not layers:
        layers = [{"how": "WithOptions", "opts": draw(layer_dicts())}]
    o = draw(U.option_dicts(p_present=draw(st.sampled_from([0.6, 0.9]))))
    x = spec["defs"][-1]
    if x["body"] == "tag" and not x.get("partial") and draw(st.integers(0, 4)) == 0:
        x["params"] = [{"k": "opt", "key": k} for k in draw(st.lists(st.sampled_from(["A", "B", "S.X", "S.Y", "R.U.V"]), min_size=1, max_size=2, unique=True))]
    if x["body"] == "tag" and x.get("params") and all(p["k"] == "opt" and p["key"] in U.VALUE_KEYS for p in x["params"]) \
            and not x.get("partial") and draw(st.integers(0, 1)) == 0:
        # X works in place on its arguments, which are containers without any templated string, held by the caller's
        # and by the layers' dictionaries
        x["body"] = "tagmut"
        for p in x["params"]:
            v = draw(st.sampled_from([[1], [0, None], [[2, 1], [3]], {"q": 1, "r": [1]}, [{"q": 1}]]))
            def free(i):
                # (two dataset-level layers of the same direction never assign the same leaf: see ASSUMPTIONS)
                ly = layers[i]
                if ly["how"] not in DATASET_LEVEL:
                    return True
                side = ly["how"] in ("ds_options", "with_options")
                return not any(j != i and other["how"] in DATASET_LEVEL and (other["how"] in ("ds_options", "with_options")) == side
                               and any(related(p["key"], t) for t in leaves(other["opts"])) for j, other in enumerate(layers))
            spots = [i for i in range(len(layers)) if free(i)] + [len(layers)]
            where = draw(st.sampled_from(spots))
            if where == len(layers):
                o = U.dotted_set(o, p["key"], v)
            else:
                layers[where]["opts"] = U.dotted_set(layers[where]["opts"], p["key"], v)
    return {"spec": spec, "layers": layers, "options": o}


def check_siblings(case, ctx):
    """Several long-lived objects derived from ONE dataset object (shared cache, shared overloads), used in turn."""
    spec = specgen.normalise(case["spec"], ctx.flags | {"no-allopts"}, ctx)
    sib_layers, hist = case["siblings"], case["history"]
    spec = copy.deepcopy(spec)
    x = spec["defs"][-1]
    x.pop("options", None)
    x.pop("default_options", None)
    if "no-coalesce-value-failure" in ctx.flags:
        pspec = copy.deepcopy(spec)
        pspec["root"] = {"k": "ref", "name": x["name"]}
        if any("absorbed-under-cache" in Ref(pspec).run(effective(sib_layers[i], o)).labels for i, o in hist):
            ctx.exclude("no-coalesce-value-failure")
            ctx.done(case, False, ["excluded-K6"])
            return
    b = build(spec)
    base = b.ds[x["name"]]
    sibs, held = [], []
    for layers in sib_layers:
        obj = base
        for ly in reversed(layers):
            d = copy.deepcopy(ly["opts"])
            obj = obj.with_options(d) if ly["how"] == "with_options" else obj.with_default_options(d)
            held.append((d, ly["opts"]))
        sibs.append(obj)
    labels = set()
    seen = set()
    for step, (i, o) in enumerate(hist):
        eff = effective(sib_layers[i], o)
        live = copy.deepcopy(o)
        op = case["ops"][step % len(case["ops"])]
        if op != "evaluate":
            run(getattr(sibs[i], op), copy.deepcopy(o))
        got = run(sibs[i].evaluate, live)
        exp = run(plain(spec).evaluate, eff)
        if got.ok != exp.ok or (got.ok and got.value != exp.value):
            raise Violation("overlay-depends-on-sibling", f"objects derived from one dataset with {sib_layers}; history {hist[:step + 1]} (object index, o): step {step} "
                                                          f"gives {got!r} but a fresh plain X on the overlay {eff} gives {exp!r}")
        if sem.typed(live) != sem.typed(o):
            raise Violation("caller-dict-mutated", f"evaluate changed the caller's dictionary {o} -> {live}")
        for d, orig in held:
            if sem.typed(d) != sem.typed(orig):
                raise Violation("preset-dict-mutated", f"a pre-set/default dictionary changed {orig} -> {d}")
        if seen and i not in seen:
            labels.add("switched-sibling")
        seen.add(i)
    same_leaf = False
    for a in range(len(sib_layers)):
        for c in range(a + 1, len(sib_layers)):
            la = {k: v for ly in sib_layers[a] for k, v in leaves(ly["opts"]).items()}
            lc = {k: v for ly in sib_layers[c] for k, v in leaves(ly["opts"]).items()}
            if any(k in lc and lc[k] != la[k] for k in la):
                same_leaf = True
    if same_leaf:
        labels.add("siblings-disagree-on-a-leaf")
    if x["body"] == "tagmut":
        labels.add("body-works-in-place-on-defaults")
    ctx.done(case, same_leaf and "switched-sibling" in labels, labels)


@st.composite
def sibling_cases(draw, prof):
    spec = draw(specgen.specs(prof))
    keys = specgen.mentioned_keys(spec)
    focus = sorted(k for k in keys if k in U.VALUE_KEYS + U.DISPATCH_KEYS + [U.THRESH]) or ["A"]
    # siblings mostly give different values to the SAME key in the same direction
    hot = draw(st.sampled_from(focus))
    how_hot = draw(st.sampled_from(["with_options", "with_default_options", "with_default_options"]))

    def val(k):
        if k in U.DISPATCH_KEYS:
            return draw(st.sampled_from(U.HASHABLE_DISPATCH))
        if k == U.THRESH:
            return draw(st.sampled_from(U.THRESH_VALUES))
        return draw(U.leaf_value(k, True))
    sibs = []
    for _ in range(draw(st.integers(2, 3))):
        layers = [{"how": how_hot, "opts": U.nest({hot: val(hot)})}]
        if draw(st.integers(0, 2)) == 0:
            k2 = draw(st.sampled_from(focus))
            if not related(k2, hot):
                layers.insert(draw(st.integers(0, 1)), {"how": draw(st.sampled_from(["with_options", "with_default_options"])), "opts": U.nest({k2: val(k2)})})
        sibs.append(layers)
    x = spec["defs"][-1]
    if x["body"] == "tag" and not x.get("partial") and draw(st.integers(0, 2)) == 0:
        # X works in place on its arguments, some of which come from constant defaults holding nested containers: every
        # computed evaluation must see the declared default again
        x["params"] = [{"k": "opt", "key": k, "default": {"t": "const", "v": draw(st.sampled_from([{"q": [1], "r": {"s": 1}}, [[1], [2]], {"q": 1}, [1]]))}}
                       for k in draw(st.lists(st.sampled_from(["A", "B", "S.X", "S.Y"]), min_size=1, max_size=2, unique=True))]
        x["body"] = "tagmut"
    if draw(st.integers(0, 3)) == 0:
        sibs.append([])      # the base object itself takes part
    o = draw(U.option_dicts(p_present=draw(st.sampled_from([0.6, 0.9]))))
    if draw(st.booleans()):
        o = U.dotted_del(o, hot)     # the caller leaves the contested key to the defaults
    hist = []
    for _ in range(draw(st.integers(2, 5))):
        if hist and draw(st.integers(0, 2)) == 0:
            o, _ = draw(U.edit_dict(o, allow_unmentioned=False, focus=focus))
        hist.append((draw(st.integers(0, len(sibs) - 1)), o))
    return {"spec": spec, "siblings": sibs, "history": hist,
            "ops": draw(st.lists(st.sampled_from(["evaluate", "evaluate", "validate", "keys", "explain"]), min_size=1, max_size=3))}


PROFILE = specgen.profile(depth=2, domain_rate=0.01)
PARTS = [
    Part("layers", check, strategy=lambda ctx: cases(PROFILE), budget={"quick": 450, "thorough": 2000}),
    Part("siblings", check_siblings, strategy=lambda ctx: sibling_cases(PROFILE), budget={"quick": 300, "thorough": 1500}),
]
