"""C09 — templates substitute options and parameters transitively and report their reads."""
from __future__ import annotations

import copy

from hypothesis import strategies as st
from labrea import Template

from .. import specgen, universe as U
from ..build import build, run
from ..harness import Part, Violation
from ..ref import Ref, find_refs

PID = "C09"
LEVEL = "exploration"
RULE = ("a Template (text from the grammar literal | {KEY} | {DOTTED.KEY} | {:param:} | escaped braces, parameters from the "
        "expression generators) or an Option whose stored value or default is templated, x option dictionaries whose "
        "values are scalars, templated strings chained to reference depth 3, or lists/sections holding templated strings. "
        "evaluate is compared with an independent textual substitution that records every option key it reads: equal "
        "text (typed), or a missing-key failure naming a key the substitution found absent; keys(o) must contain every "
        "read key that is present and explain(o) every read key; one long-lived Template object used on two dictionaries "
        "in turn, and re-entered from the computation of its own last parameter under the other dictionary, gives each "
        "evaluation the text of its own dictionary. Non-trivial = the substitution read >=2 distinct keys of "
        "which at least one through another templated value (reference depth >=2) or through a container; distinct = "
        "distinct (node, dictionary) hash.")
ASSUMPTIONS = [
    "no '{@env.*}' references, no cyclic templates, no dict-valued references inside multi-part templates",
    "independent substitution in vlib/ref.py (find_refs / subst / template)",
]


def depth_of(o, key, seen=0):
    v = U.dotted_get(o, key)
    if v is U.ABSENT or seen > 5:
        return 0
    refs = []
    for s in _strings(v):
        refs += find_refs(s)
    if not refs:
        return 0
    return 1 + max(depth_of(o, r, seen + 1) for r in refs)


def _strings(v):
    if isinstance(v, str):
        yield v
    elif isinstance(v, dict):
        for x in v.values():
            yield from _strings(x)
    elif isinstance(v, list):
        for x in v:
            yield from _strings(x)


def check(case, ctx):
    spec = {"defs": case.get("defs", []), "root": case["node"]}
    o = case["options"]
    r = Ref(spec).run(o)
    if "scalar-section-walk" in r.labels:
        ctx.done(case, False, ["skipped-scalar-section"])
        return
    b = build(spec)
    ev = run(b.root.evaluate, o)
    where = f"{case['node']} on {o}"
    if r.ok:
        if not ev.ok or ev.value != r.value:
            raise Violation("wrong-text", f"{where}: expected {r.value} but {ev!r} ({ev.exc!r})")
    else:
        if ev.ok:
            raise Violation("failure-vs-value", f"{where}: expected failure {sorted(r.fails)} but got {ev.value}")
        if ev.fail not in r.fails:
            raise Violation("failure-class", f"{where}: expected {sorted(r.fails)} but {ev.fail} ({ev.exc!r})")
    reads = dict(r.caller_reads)
    labels = set()
    ks = run(build(spec).root.keys, o)
    if ks.ok:
        K = build(spec).root.keys(o)
        need = {k for k, present in reads.items() if present}
        if not need <= K:
            raise Violation("keys-miss-read", f"{where}: substitution read {sorted(need)} but keys() = {sorted(K)}")
    elif r.ok:
        raise Violation("keys-fail", f"{where}: evaluates to {r.value} but keys() failed {ks!r}")
    ex = run(build(spec).root.explain, o)
    if ex.ok:
        E = build(spec).root.explain(o)
        need_e = set(r.caller_tmpl_reads) | {k for k, present in reads.items() if present}
        if not need_e <= E:
            raise Violation("explain-miss-read", f"{where}: substitution read {sorted(need_e)} but explain() = {sorted(E)}")
    elif r.ok:
        raise Violation("explain-fail", f"{where}: evaluates but explain() failed {ex!r}")
    if case["node"]["k"] == "tmpl" and "options2" in case:
        # one long-lived Template object: used for several dictionaries in turn, and re-entered (its last parameter's
        # computation evaluates the same object under another dictionary) - every evaluation sees its own options only
        o2 = case["options2"]
        r2 = Ref(spec).run(o2)
        if "scalar-section-walk" not in r2.labels:
            def same(out, rr):
                return (out.ok and rr.ok and out.value == rr.value) or (not out.ok and not rr.ok and out.fail in rr.fails)
            T = build(spec).root
            for oo, rr in ((o2, r2), (o, r), (o2, r2)):
                out = run(T.evaluate, copy.deepcopy(oo))
                if not same(out, rr):
                    raise Violation("depends-on-earlier-evaluation", f"{case['node']}: one Template object evaluated on {o2}, {o}, {o2} in turn: on {oo} "
                                                                     f"gives {out!r} but a fresh one {rr!r}")
            labels.add("same-object-reused")
            names = list(case["node"]["params"])
            if names:
                b3 = build(spec)
                params = {nm: b3.node(case["node"]["params"][nm]) for nm in names}
                inner, busy = [], []

                def hook(x):
                    if not busy:
                        busy.append(1)
                        try:
                            inner.append(run(T2.evaluate, copy.deepcopy(o2)))
                        finally:
                            busy.pop()
                    return x
                params[names[-1]] = params[names[-1]].apply(hook)
                T2 = Template(case["node"]["s"], **params)
                outer = run(T2.evaluate, copy.deepcopy(o))
                if not same(outer, r):
                    raise Violation("re-entrant-evaluation", f"{case['node']} on {o}, while its parameter {names[-1]} was being computed the same object was "
                                                             f"evaluated on {o2}: the outer evaluation gives {outer!r}, expected {r!r}")
                for out in inner:
                    if not same(out, r2):
                        raise Violation("re-entrant-evaluation", f"{case['node']} evaluated on {o2} from inside its own evaluation on {o}: {out!r}, expected {r2!r}")
                if inner and len(names) >= 2 and r.ok and r2.ok and r.value != r2.value:
                    labels.add("re-entered-with-other-options")
    deep = max([depth_of(o, k) for k in reads] + [0])
    container = any(isinstance(U.dotted_get(o, k), (list, dict)) and any(find_refs(s) for s in _strings(U.dotted_get(o, k))) for k in reads)
    if deep >= 1:
        labels.add(f"ref-depth>={min(deep + 1, 3)}")
    if container:
        labels.add("templated-in-container")
    labels.add("ok" if r.ok else "missing")
    labels.add("kind:" + case["node"]["k"])
    ctx.done(case, len(reads) >= 2 and (deep >= 1 or container), labels)


@st.composite
def templated_dicts(draw):
    o = {}
    order = U.REF_ORDER[:-1]
    for i, k in enumerate(order):
        r = draw(st.integers(0, 9))
        if r <= 1:
            continue
        if r <= 5 and i < len(order) - 1:
            v = draw(U.templated_value(k))
        else:
            v = draw(U.plain_values())
        o = U.dotted_set(o, k, v)
    if draw(st.booleans()):
        o["T"] = draw(st.sampled_from(U.THRESH_VALUES))
    if draw(st.booleans()):
        o["K"] = draw(st.sampled_from(U.HASHABLE_DISPATCH))
    return o


@st.composite
def cases(draw):
    o = draw(templated_dicts())
    g = specgen._G(draw, specgen.profile(domain_rate=0.0, max_defs=1))
    kind = draw(st.sampled_from(["tmpl", "tmpl", "opt", "opt_default_tmpl", "section"]))
    if kind == "tmpl":
        # parameters read the caller's options directly (Options, possibly defaulted or chained), so
        # that "keys the substitution reads" is about the caller's dictionary
        s = g.tmpl_text(params=True)
        if draw(st.integers(0, 2)) == 0:
            s += "".join(piece for piece in ("{:p0:}", "/{:p1:}") if piece.strip("/") not in s)
        text_refs = [r for r in find_refs(s) if not r.startswith(":") and r in U.REF_ORDER]

        def param():
            if draw(st.integers(0, 5)) == 0:
                # a constant whose string form contains braces / backslashes: it is text, never a reference
                return {"k": "val", "v": draw(st.sampled_from(["{", "}", "}{", "{A}", "a\\{b\\}", "\\", "{:p0:}", "{x", ["{A}"], {"k": "}"}]))}
            p = g.opt(hashable=True) if draw(st.booleans()) else {"k": "opt", "key": draw(st.sampled_from(U.FLAT + ["S.X"]))}
            if text_refs and draw(st.integers(0, 2)) == 0:
                # the parameter reads a key the text references too (possibly under pinned options)
                p = {"k": "opt", "key": draw(st.sampled_from(text_refs))}
            if draw(st.integers(0, 2)) == 0:
                # a parameter evaluated under pinned options: what it reads there is not a read of the caller's dictionary
                pin = draw(st.sampled_from(U.REF_ORDER[:-1]))
                v = U.dotted_get(o, p["key"])
                inner = [r for sv in _strings(v) for r in find_refs(sv)] if v is not U.ABSENT else []
                if inner and draw(st.integers(0, 3)) > 0:
                    pin = draw(st.sampled_from(inner))   # pin exactly what the parameter's own value references
                p = {"k": "with", "body": p, "opts": U.nest({pin: draw(st.sampled_from(["pinned", 1, None]))}), "force": draw(st.booleans())}
            return p
        node = {"k": "tmpl", "s": s, "params": {nm: param() for nm in ("p0", "p1") if "{:%s:}" % nm in s}}
    elif kind == "opt":
        node = {"k": "opt", "key": draw(st.sampled_from(U.FLAT + ["S.X", "R.U.V"]))}
    elif kind == "section":
        node = {"k": "opt", "key": draw(st.sampled_from(["S", "R.U"]))}
    else:
        node = {"k": "opt", "key": draw(st.sampled_from(U.FLAT)), "default": {"t": draw(st.sampled_from(["tmpl", "const"])), "s": g.tmpl_text(False)}}
        if node["default"]["t"] == "const":
            node["default"] = {"t": "const", "v": node["default"]["s"]}
    case = {"node": node, "defs": g.defs, "options": o}
    if kind == "tmpl":
        pkeys = [p["key"] if p["k"] == "opt" else p["body"]["key"] for p in node["params"].values() if p["k"] != "val"]
        o2 = o
        for _ in range(draw(st.integers(1, 2))):
            o2, _e = draw(U.edit_dict(o2, allow_unmentioned=False, focus=pkeys + [r for r in find_refs(s) if not r.startswith(":")]))
        case["options2"] = o2
    return case


PARTS = [
    Part("templates", check, strategy=lambda ctx: cases(), budget={"quick": 2500, "thorough": 8000}),
]
