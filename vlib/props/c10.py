"""C10 — validate, keys and evaluate agree about whether options suffice."""
from __future__ import annotations

from hypothesis import strategies as st
from labrea.exceptions import KeyNotFoundError

from .. import specgen, universe as U
from ..build import build, run
from ..harness import Part, Violation
from ..ref import Ref

PID = "C10"
LEVEL = "exploration"
RULE = ("part 'total': program specs with total bodies/predicates and no declared domains x option dictionaries; on a cold "
        "fresh build and on a warm long-lived build (after a generated prefix history of evaluations) validate(o), keys(o) "
        "and evaluate(o) must succeed or fail together, and validate/keys may only run bodies that compute a "
        "branch-selecting value (dispatch, bind source, case dispatch / predicate argument, Map iterable) according to "
        "the reference. part 'partial': bodies, predicates, callbacks may raise on a declared subset of inputs; a passing "
        "validate(o) must exclude a missing-option failure of evaluate(o). Non-trivial = the same graph shows both "
        "outcomes (sufficient / insufficient) across its dictionaries, or the case is warm with a cache hit; distinct = "
        "distinct (spec, dictionaries) hash.")
ASSUMPTIONS = [
    "option values inside declared domains is ensured by generating no domains in the 'total' part",
    "reference interpreter decides which bodies are branch choosers",
]


def has_missing(exc):
    seen = 0
    while exc is not None and seen < 300:
        if isinstance(exc, KeyNotFoundError):
            return exc.key
        exc = exc.__cause__
        seen += 1
    return None


def trio(G, o, where, r, labels, check_bodies=True):
    mark = len(G.log)
    val = run(G.root.validate, o)
    ran_v = set(G.bodies_run(mark))
    mark = len(G.log)
    keys = run(G.root.keys, o)
    ran_k = set(G.bodies_run(mark))
    ev = run(G.root.evaluate, o)
    if not (val.ok == keys.ok == ev.ok):
        raise Violation("disagree", f"{where}: validate {'ok' if val.ok else val.fail}, keys {'ok' if keys.ok else keys.fail}, "
                                    f"evaluate {'ok' if ev.ok else ev.fail}; reference {r!r}")
    if check_bodies:
        extra = (ran_v | ran_k) - r.choosers
        if extra:
            raise Violation("validate-ran-body", f"{where}: validate/keys ran bodies {sorted(extra)} that select no branch "
                                                 f"(choosers {sorted(r.choosers)})")
    labels.add("sufficient" if ev.ok else "insufficient")
    return ev.ok


def with_toggles(spec, case):
    """A build on which disable_effects() was called for the datasets the case names (long-lived objects are
    reconfigured after definition)."""
    G = build(spec)
    off = set()
    for i in case.get("effects_off", []):
        d = spec["defs"][i % len(spec["defs"])]
        if d.get("effects"):
            G.ds[d["name"]].disable_effects()
            off.add(d["name"])
    return G, off


def check_total(case, ctx):
    spec = specgen.normalise(case["spec"], ctx.flags, ctx)
    _, off = with_toggles(spec, case)
    ref = Ref(spec, effects_disabled=off)
    labels = set()
    if off:
        labels.add("disable_effects()")
    seen = set()
    for o in case["options"]:
        r = ref.run(o)
        seen.add(trio(with_toggles(spec, case)[0], o, f"cold options={o} effects disabled on {sorted(off)}", r, labels))
    # warm: long-lived build, prefix history, then the trio on each dictionary again
    G, _ = with_toggles(spec, case)
    for o in case["prefix"]:
        run(G.root.evaluate, o)
    warm_hit = False
    for o in case["options"] + case["prefix"][:2]:
        r = ref.run(o)
        mark = len(G.log)
        ok = trio(G, o, f"warm options={o}", r, labels, check_bodies=True)
        if ok and r.must and not set(G.bodies_run(mark)) & r.must:
            warm_hit = True
            labels.add("warm-hit")
    ctx.done(case, len(seen) == 2 or warm_hit, labels)


def check_partial(case, ctx):
    spec = specgen.normalise(case["spec"], ctx.flags, ctx)
    ref = Ref(spec)
    labels = set()
    fired = False
    for o in case["options"]:
        r = ref.run(o)
        if "coalesce-member-raised" in r.labels and "no-coalesce-raising-member" in ctx.flags:
            ctx.exclude("no-coalesce-raising-member")
            continue
        G = build(spec)
        val = run(G.root.validate, o)
        ev = run(G.root.evaluate, o)
        if val.ok and not ev.ok:
            k = has_missing(ev.exc)
            labels.add("validate-ok-evaluate-fails")
            fired = True
            if k is not None:
                raise Violation("missing-after-validate", f"options={o}: validate passed but evaluate failed with missing option {k!r}: {ev.exc!r}")
        labels |= {l for l in r.labels if "partial" in l or "raised" in l}
    ctx.done(case, fired, labels)


@st.composite
def cases(draw, prof):
    spec = draw(specgen.specs(prof))
    p = draw(st.sampled_from([0.5, 0.8, 0.95]))
    base = draw(U.option_dicts(p_present=p))
    opts = [base]
    for _ in range(3):
        o, _ = draw(U.edit_dict(opts[-1]))
        opts.append(o)
    prefix = draw(U.histories(min_len=2, max_len=5, p_present=p))
    return {"spec": spec, "options": opts, "prefix": prefix, "effects_off": draw(st.lists(st.integers(0, 5), max_size=2))}


TOTAL = specgen.profile(domain_rate=0.0, total_preds=True, domain_always_true=0.15)
PARTIAL = specgen.profile(domain_rate=0.0, partial=True)
PARTS = [
    Part("total", check_total, strategy=lambda ctx: cases(TOTAL), budget={"quick": 220, "thorough": 1500}),
    Part("partial", check_partial, strategy=lambda ctx: cases(PARTIAL), budget={"quick": 150, "thorough": 800}),
]
