"""C11 — explain() covers keys() and names every missing option."""
from __future__ import annotations

from hypothesis import strategies as st
from labrea.exceptions import InsufficientInformationError, KeyNotFoundError

from .. import specgen, universe as U
from ..build import build, run
from ..harness import Part, Violation
from ..ref import Ref
from .c10 import has_missing

PID = "C11"
LEVEL = "exploration"
RULE = ("program specs (total bodies, no domains) x a dictionary o* and a generated chain of sub-dictionaries of o* "
        "(from the empty dictionary upwards), each on a cold fresh build: when explain(o) succeeds it must contain keys(o) "
        "(when that succeeds); with A = listed keys absent from o: A empty => validate(o) does not fail for a missing "
        "option, A non-empty => validate(o) fails, and a missing-key failure of validate(o) names a listed key; explain "
        "may raise only InsufficientInformationError and only when the reference could not obtain a branch-selecting "
        "value; explain may only run branch-chooser bodies. Then the fill loop: starting from each sub-dictionary, "
        "repeatedly supply the absent listed keys (values from o*, else a default of the right shape) until nothing is "
        "absent; the final dictionary must not fail validation for a missing option. Non-trivial = explain listed at "
        "least one absent key for some dictionary of the chain and the fill loop took >=1 round; distinct = distinct "
        "(spec, o*, chain) hash.")
ASSUMPTIONS = [
    "cold builds only (the property's quantifier has no histories)",
    "total bodies and predicates, no declared domains",
]


def supply(o, key, ostar):
    """o with `key` supplied (from o* when it has it, else a default of the right shape)."""
    segs = key.split(".")
    if segs[-1].isdigit():
        parent = ".".join(segs[:-1])
        lst = U.dotted_get(ostar, parent)
        if not isinstance(lst, list) or len(lst) <= int(segs[-1]):
            lst = ["a"] * (int(segs[-1]) + 1)
        return U.dotted_set(o, parent, lst)
    return U.dotted_set(o, key, filler(key, ostar))


def filler(key, ostar):
    v = U.dotted_get(ostar, key)
    if v is not U.ABSENT:
        return v
    if key in U.DISPATCH_KEYS:
        return None
    if key == U.THRESH:
        return 1
    if key == "L":
        return [1]
    if key in ("S", "R.U", "R"):
        return {}
    return "a"


def relations(spec, o, ref, labels, mk=None):
    """Check the explain/keys/validate relations on a cold build; returns (explain ok?, absent listed keys)."""
    mk = mk or (lambda: build(spec))
    r = ref.run(o)
    G = mk()
    mark = len(G.log)
    try:
        E = G.root.explain(o)
    except InsufficientInformationError as e:
        labels.add("explain-insufficient")
        if not (r.chooser_failed or not r.ok):
            raise Violation("explain-failed-needlessly", f"options={o}: explain raised {e!r} although every branch can be chosen; reference {r!r}")
        E = None
    except Exception as e:
        raise Violation("explain-raised-other", f"options={o}: explain raised {type(e).__name__}: {e!r}")
    ran = set(G.bodies_run(mark))
    allowed = r.choosers | specgen.static_choosers(spec)
    if ran - allowed:
        raise Violation("explain-ran-body", f"options={o}: explain ran bodies {sorted(ran - allowed)} beyond branch selection {sorted(allowed)}")
    if E is None:
        return None
    keys = run(mk().root.keys, o)
    if keys.ok:
        K = mk().root.keys(o)
        if not K <= E:
            raise Violation("explain-misses-keys", f"options={o}: keys {sorted(K)} but explain {sorted(E)}")
    A = {k for k in E if not U.dotted_has(o, k)}
    val = run(mk().root.validate, o)
    if not A:
        k = None if val.ok else has_missing(val.exc)
        if k is not None:
            raise Violation("nothing-absent-but-missing", f"options={o}: explain {sorted(E)} lists nothing absent but validate fails: missing {k!r}")
    else:
        labels.add("absent-listed")
        if val.ok:
            raise Violation("absent-but-validates", f"options={o}: explain lists absent keys {sorted(A)} but validate passes")
    if not val.ok:
        k = has_missing(val.exc)
        if k is not None and k not in E:
            raise Violation("missing-key-not-listed", f"options={o}: validate fails for missing {k!r} but explain lists {sorted(E)}")
    return A


def check(case, ctx):
    spec = specgen.normalise(case["spec"], ctx.flags, ctx)
    from .c10 import with_toggles
    _, off = with_toggles(spec, case)
    ref = Ref(spec, effects_disabled=off)
    mk = (lambda: with_toggles(spec, case)[0])
    ostar = case["ostar"]
    labels = set()
    if off:
        labels.add("disable_effects()")
    nontrivial = False
    chain = [{}]
    cur = {}
    for k in case["order"]:
        v = U.dotted_get(ostar, k)
        if v is U.ABSENT or isinstance(v, dict):
            continue
        cur = U.dotted_set(cur, k, v)
        chain.append(cur)
    chain.append(ostar)
    for o in chain:
        relations(spec, o, ref, labels, mk)
    # fill loop from a few starting points
    for start in (chain[0], chain[len(chain) // 2]):
        o = start
        rounds = 0
        for _ in range(30):
            A = relations(spec, o, ref, labels, mk)
            if A is None:
                # branch cannot be chosen: supply the dispatch-ish keys the reference read and found absent
                r = ref.run(o)
                absent = [k for k, present in r.reads.items() if not present]
                if not absent:
                    break
                for k in absent:
                    o = supply(o, k, ostar)
                rounds += 1
                continue
            if not A:
                break
            for k in sorted(A):
                if not U.dotted_has(o, k):
                    o = supply(o, k, ostar)
            rounds += 1
        else:
            raise Violation("fill-loop-does-not-terminate", f"from {start}: still absent keys after 30 rounds; now {o}")
        if rounds:
            labels.add("fill-rounds>=1")
            if "absent-listed" in labels:
                nontrivial = True
    ctx.done(case, nontrivial, labels)


@st.composite
def cases(draw, prof):
    spec = draw(specgen.specs(prof))
    ostar = draw(U.option_dicts(p_present=draw(st.sampled_from([0.7, 0.9, 0.97]))))
    leaves = U.VALUE_KEYS + U.DISPATCH_KEYS + [U.THRESH, "L"]
    order = draw(st.permutations(leaves))
    return {"spec": spec, "ostar": ostar, "order": list(order)[:draw(st.integers(2, 8))], "effects_off": draw(st.lists(st.integers(0, 5), max_size=2))}


PROFILE = specgen.profile(domain_rate=0.0, total_preds=True, depth=2)
PARTS = [
    Part("chains", check, strategy=lambda ctx: cases(PROFILE), budget={"quick": 250, "thorough": 900}),
]
