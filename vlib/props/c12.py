"""C12 — failures surface as EvaluationError with source and cause; never stored."""
from __future__ import annotations

from hypothesis import strategies as st
from labrea.conditional import CaseWhenError, SwitchError
from labrea.exceptions import EvaluationError, KeyNotFoundError

from .. import specgen, universe as U
from ..build import build, classify, run
from ..harness import Part, Violation
from ..ref import Ref
from .c11 import supply

PID = "C12"
LEVEL = "exploration"
RULE = ("program specs in which a generated subset of user callables (bodies, callbacks, effects, predicates, applied "
        "functions, default factories) raises a generated exception type on declared inputs, plus missing options and "
        "unmatched switch/case, x a history of failing and succeeding dictionaries on ONE long-lived build. Checked per "
        "step: success/failure equals the fault-aware reference and a fresh build; a failure is an EvaluationError whose "
        "source is the object evaluate() was called on, every link of its __cause__ chain down to the original error is an "
        "EvaluationError, and the original is the injected exception type or a missing-option error naming a key the "
        "reference found absent; after a failure every later step still equals the fresh build (nothing stored), and "
        "after a missing-option failure the same dictionary plus that option no longer fails for it. Non-trivial = the "
        "history has a failing step caused by an injected exception or missing key followed by a succeeding step on a "
        "graph with a cacheable dataset reached; distinct = distinct (spec, history) hash.")
ASSUMPTIONS = [
    "only Exception subclasses are injected",
    "lazy roots (bare Iter/Map) are not used as roots so that 'during evaluation' is well-defined",
    "fault-aware reference interpreter vlib/ref.py",
]


def raised_within(cause, source):
    """Did `cause` propagate out of the evaluation of `source`? Its traceback then holds a frame that refers to it
    (the request handler's `request.evaluatable`, or `self` of one of the object's own methods)."""
    tb = cause.__traceback__
    while tb is not None:
        for v in tb.tb_frame.f_locals.values():
            if v is source or getattr(v, "evaluatable", None) is source:
                return True
        tb = tb.tb_next
    return False


def chain_ok(e, root):
    """Walk __cause__: generic EvaluationError wrappers, then the original."""
    if not isinstance(e, EvaluationError):
        return f"raised {type(e).__name__}, not an EvaluationError"
    if e.source is not root:
        return f"source is {e.source!r}, not the evaluated object"
    cur = e
    hops = 0
    while type(cur) is EvaluationError:
        if cur.__cause__ is None:
            return "an EvaluationError wrapper without a cause"
        if not hasattr(cur, "source"):
            return "wrapper without source"
        if isinstance(cur.__cause__, EvaluationError) and not raised_within(cur.__cause__, cur.source):
            return (f"the cause {cur.__cause__!r} of the error for {cur.source!r} was not raised while that object was being evaluated "
                    f"(the chain does not lead through the nested objects)")
        cur = cur.__cause__
        hops += 1
        if hops > 500:
            return "cause chain too long"
    return None


def check(case, ctx):
    spec = specgen.normalise(case["spec"], ctx.flags, ctx)
    ref = Ref(spec)
    if "no-coalesce-value-failure" in ctx.flags:
        if any("absorbed-under-cache" in ref.run(o).labels for o in case["history"]):
            ctx.exclude("no-coalesce-value-failure")
            ctx.done(case, False, ["excluded-K6"])
            return
    G = build(spec)
    labels = set()
    failed_before = False
    nontrivial = False
    extra_steps = []
    hist = list(case["history"])
    i = 0
    while i < len(hist):
        o = hist[i]
        r = ref.run(o)
        if "no-coalesce-value-failure" in ctx.flags and "absorbed-under-cache" in r.labels:
            # (a dictionary inserted by the supply step shows the shape of known finding K6)
            ctx.exclude("no-coalesce-value-failure")
            ctx.done(case, False, ["excluded-K6"])
            return
        fresh = run(build(spec).root.evaluate, o)
        on = run(G.root.evaluate, o)
        where = f"step {i} options={o}"
        if on.ok != r.ok or (r.ok and on.value != r.value):
            raise Violation("outcome-vs-reference", f"{where}: labrea {on!r} ({on.exc!r}) but reference {r!r}")
        if on.ok != fresh.ok or (on.ok and on.value != fresh.value):
            raise Violation("long-lived-vs-fresh", f"{where}: long-lived {on!r} but fresh build {fresh!r}" + (" (after a failed step)" if failed_before else ""))
        if not on.ok:
            bad = chain_ok(on.exc, G.root)
            if bad:
                raise Violation("error-shape", f"{where}: {bad}: {on.exc!r}")
            if on.fail not in r.fails:
                raise Violation("original-error", f"{where}: cause chain ends in {on.fail} but the reference allows {sorted(r.fails)}: {on.exc!r}")
            labels.add("fail:" + on.fail[0])
            if on.fail[0] in ("missing", "exc"):
                failed_before = True
            if on.fail[0] == "missing" and i < len(case["history"]):
                # supplying the missing option afterwards must cure that failure
                hist.insert(i + 1, supply(o, on.fail[1], {}))
                extra_steps.append((i + 1, on.fail[1]))
        else:
            if failed_before and r.must:
                nontrivial = True
        for idx, key in extra_steps:
            if idx == i and not on.ok and on.fail == ("missing", key):
                raise Violation("still-missing-after-supply", f"{where}: option {key!r} was supplied but the evaluation still reports it missing")
        labels |= {l for l in r.labels if "raised" in l or "partial" in l}
        i += 1
    ctx.done(case, nontrivial, labels)


@st.composite
def cases(draw, prof, maxlen):
    spec = draw(specgen.specs(prof))
    hist = draw(U.histories(min_len=3, max_len=maxlen, p_present=draw(st.sampled_from([0.6, 0.85, 0.95]))))
    return {"spec": spec, "history": hist}


PROFILE = specgen.profile(partial=True, faults=True, lazy_root=False, domain_rate=0.08)
PARTS = [
    Part("fault-histories", check, strategy=lambda ctx: cases(PROFILE, 7 if ctx.tier == "quick" else 14),
         budget={"quick": 400, "thorough": 1500}),
]
