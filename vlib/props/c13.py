"""C13 — pipelines compose associatively; step parameters come from options and are keyed."""
from __future__ import annotations

import builtins
import functools
import inspect
import itertools
import types as pytypes

import labrea.functions as F
from hypothesis import strategies as st
from labrea import Option, pipeline_step
from labrea.exceptions import EvaluationError
from labrea.pipeline import Pipeline, PipelineStep
from labrea.types import Value

from .. import sem, universe as U
from ..harness import Part, Violation

PID = "C13"
LEVEL = "exploration"
RULE = ("part 'composition': a sequence of <=6 steps (decorated steps with option-valued or constant parameters, plain "
        "callables, helper steps, nested pipelines used as steps, empty pipelines) x EVERY bracketing of their + (all "
        "Catalan(n-1) binary trees) x an input from a typed value universe x an options dictionary: all bracketings must "
        "transform identically to the plain left-to-right Python composition, iterate to the same steps in application "
        "order (the empty pipeline being an identity that may appear as one identity step), the empty pipeline is a "
        "two-sided identity, (p+q).transform(x,o) = q.transform(p.transform(x,o),o), (e >> p)(o) = p.transform(e(o),o), and "
        "keys()/explain() contain every option key a step parameter names. part 'helpers': for every public helper of "
        "labrea.functions (enumerated by reflection; names without a table row are reported in evidence) x inputs from "
        "the helper's domain (incl. inputs on which the Python operation raises) x every argument given as a constant or "
        "as an Option: the result equals the Python operation with the documented operand order (or fails with the same "
        "exception type), and keys()/explain() contain the argument's option key. Non-trivial (composition) = >=3 steps "
        "with >=2 distinct bracketings and an option-valued parameter; (helpers) = an argument supplied through an "
        "option; distinct = distinct case hash.")
ASSUMPTIONS = [
    "call_method(*args, **kwargs) arguments are constants (documented as plain values)",
    "floats are compared exactly: both sides perform the identical Python operation",
]


# ---- composition --------------------------------------------------------------------------------------------------
def mk_step(s):
    """(labrea object usable as a + operand, python function f(x, o), list of flattened atomic python functions, param keys)"""
    t = s["t"]
    if t == "tag":
        name = s["name"]
        if "param" in s:
            key, default = s["param"]

            def fn(x, p):
                return ("s", name, sem.freeze(x), p)
            fn.__defaults__ = (Option(key, default) if default is not None else Option(key),)
            fn.__name__ = name

            def py(x, o, key=key, default=default):
                v = U.dotted_get(o, key)
                if v is U.ABSENT:
                    if default is None:
                        raise KeyError(key)
                    v = default
                return ("s", name, sem.freeze(x), v)
            return pipeline_step(fn), py, [py], {key}

        def fn0(x):
            return ("s", name, sem.freeze(x))
        fn0.__name__ = name
        return pipeline_step(fn0), (lambda x, o: ("s", name, sem.freeze(x))), [lambda x, o: ("s", name, sem.freeze(x))], set()
    if t == "plain":
        name = s["name"]

        def plain(x):
            return ("p", name, sem.freeze(x))
        return Pipeline() + plain, (lambda x, o: ("p", name, sem.freeze(x))), [lambda x, o: ("p", name, sem.freeze(x))], set()
    if t == "helper":
        h, arg = s["name"], s["arg"]
        if isinstance(arg, dict):
            key = arg["opt"]
            obj = getattr(F, h)(Option(key))

            def py(x, o, key=key):
                v = U.dotted_get(o, key)
                if v is U.ABSENT:
                    raise KeyError(key)
                return sem.HELPER_PY[h](x, v)
            return obj, py, [py], {key}
        obj = getattr(F, h)(arg)
        return obj, (lambda x, o: sem.HELPER_PY[h](x, arg)), [lambda x, o: sem.HELPER_PY[h](x, arg)], set()
    if t == "empty":
        return Pipeline(), (lambda x, o: x), [], set()
    if t == "nested":
        parts = [mk_step(x) for x in s["steps"]]
        pipe = Pipeline()
        for p in parts:
            pipe = pipe + p[0]

        def py(x, o):
            for p in parts:
                x = p[1](x, o)
            return x
        return pipe, py, [f for p in parts for f in p[2]], set().union(*[p[3] for p in parts]) if parts else set()
    raise ValueError(t)


def _has_default(steps, key):
    for s in steps:
        if s["t"] == "tag" and s.get("param") and s["param"][0] == key and s["param"][1] is None:
            return False
        if s["t"] == "helper" and isinstance(s["arg"], dict) and s["arg"]["opt"] == key:
            return False
        if s["t"] == "nested" and not _has_default(s["steps"], key):
            return False
    return True


def bracketings(items):
    """All binary bracketings of items under +, as thunks producing the composed object."""
    if len(items) == 1:
        yield items[0], "x"
        return
    for i in range(1, len(items)):
        for left, ls in bracketings(items[:i]):
            for right, rs in bracketings(items[i:]):
                yield left + right, f"({ls}+{rs})"


def outcome(fn):
    try:
        return ("ok", sem.typed(fn()))
    except EvaluationError as e:
        cur = e
        while isinstance(cur, EvaluationError) and cur.__cause__ is not None:
            cur = cur.__cause__
        name = type(cur).__name__
        return ("fail", "KeyError" if name == "KeyNotFoundError" else name)
    except Exception as e:
        return ("fail", type(e).__name__)


def check_composition(case, ctx):
    steps = case["steps"]
    x, o = case["input"], case["options"]
    built = [mk_step(s) for s in steps]
    objs = [b[0] for b in built]

    def py_all(v):
        for b in built:
            v = b[1](v, o)
        return v

    expected = outcome(lambda: py_all(x))
    flat = [f for b in built for f in b[2]]
    pkeys = set().union(*[b[3] for b in built]) if built else set()
    # parameters are evaluated before the steps are applied: a missing parameter option is a possible
    # failure even when an earlier step would fail on the input first
    missing_param = any(not U.dotted_has(o, k) and not _has_default(steps, k) for k in pkeys)
    acceptable = {expected} | ({("fail", "KeyError")} if missing_param else set())
    need_explain = {k for k in pkeys if U.dotted_has(o, k) or not _has_default(steps, k)}
    labels = set()
    nb = 0
    for pipe, shape in bracketings(objs):
        nb += 1
        if not hasattr(pipe, "transform"):
            continue
        got = outcome(lambda: pipe.transform(x, o))
        if got not in acceptable:
            raise Violation("bracketing-changes-result", f"steps={steps} bracketing {shape} input={x!r} options={o}: got {got} expected {expected}")
        if isinstance(pipe, Pipeline):
            listed = list(pipe)
            # apply the listed steps one after another: must reproduce the pipeline (application order)
            def via_list(v):
                for st_ in listed:
                    v = st_.evaluate(o)(v)
                return v
            got_l = outcome(lambda: via_list(x))
            if got_l not in acceptable:
                raise Violation("iteration-order", f"steps={steps} bracketing {shape}: applying list(pipeline) in order gives {got_l}, expected {expected}")
            n_real = len([s for s in listed if not (isinstance(s, PipelineStep) and s == F.Pipeline().tail)]) if False else len(listed)
            if not (len(flat) <= n_real <= len(flat) + sum(1 for s in steps if s["t"] == "empty") + 1):
                raise Violation("iteration-length", f"steps={steps} bracketing {shape}: list(pipeline) has {n_real} steps, the composition has {len(flat)}")
        if pkeys:
            try:
                E = pipe.explain(o)
            except Exception as e:
                raise Violation("explain-raised", f"steps={steps} bracketing {shape}: explain raised {e!r}")
            if not need_explain <= E:
                raise Violation("parameter-keys-not-explained", f"steps={steps} bracketing {shape}: explain {sorted(E)} misses parameter keys {sorted(need_explain)}")
            present = {k for k in pkeys if U.dotted_has(o, k)}
            try:
                K = pipe.keys(o)
            except Exception:
                K = None
            if K is not None and not present <= K:
                raise Violation("parameter-keys-not-reported", f"steps={steps} bracketing {shape}: keys {sorted(K)} misses {sorted(present)}")
    # identity laws and composition law on the left-to-right pipeline
    whole = Pipeline()
    for ob in objs:
        whole = whole + ob
    for name, variant in (("empty+p", Pipeline() + whole), ("p+empty", whole + Pipeline())):
        got = outcome(lambda: variant.transform(x, o))
        if got not in acceptable:
            raise Violation("empty-not-identity", f"steps={steps}: {name} gives {got}, expected {expected}")
    for cut in range(0, len(objs) + 1):
        p, q = Pipeline(), Pipeline()
        for ob in objs[:cut]:
            p = p + ob
        for ob in objs[cut:]:
            q = q + ob
        got = outcome(lambda: q.transform(p.transform(x, o), o))
        both = outcome(lambda: (p + q).transform(x, o))
        if (got != both and not (got[0] == both[0] == "fail")) or both not in acceptable:
            raise Violation("composition-law", f"steps={steps} cut={cut}: (p+q).transform={both}, q.transform(p.transform)={got}, expected {expected}")
    # the evaluated pipeline is an ordinary function: calling it again (or mapping it over several elements) must
    # apply every step each time
    if expected[0] == "ok":
        def twice():
            f = whole.evaluate(o)
            return [f(x), f(x), f(x)]
        got = outcome(twice)
        exp3 = outcome(lambda: [py_all(x), py_all(x), py_all(x)])
        if got != exp3:
            raise Violation("evaluated-function-not-reusable", f"steps={steps}: f = p.evaluate(o); [f(x), f(x), f(x)] = {got}, expected {exp3}")
        got = outcome(lambda: (Value([x, x]) >> (F.map(whole) + list))(o))
        exp_m = outcome(lambda: [py_all(x), py_all(x)])
        if got != exp_m:
            raise Violation("pipeline-as-function-argument", f"steps={steps}: F.map(p) over two elements gives {got}, expected {exp_m}")
    # e >> p
    e = Option("IN")
    o2 = {**o, "IN": x}
    got = outcome(lambda: (e >> whole)(o2))
    exp2 = outcome(lambda: whole.transform(e(o2), o2))
    if got != exp2 or got not in acceptable:
        raise Violation("rshift-law", f"steps={steps}: (e >> p)(o)={got}, p.transform(e(o),o)={exp2}, expected {expected}")
    if pkeys:
        labels.add("option-parameter")
    labels.add(f"steps={len(steps)}")
    labels.add(f"bracketings={nb}")
    ctx.done(case, len(steps) >= 3 and nb >= 2 and bool(pkeys), labels | {"t:" + s["t"] for s in steps})


NUMS = [0, 1, 2, -1, 3, 2.5]


@st.composite
def step_specs(draw, depth=0):
    t = draw(st.sampled_from(["tag", "tag", "plain", "helper", "empty"] + (["nested"] if depth == 0 else [])))
    if t == "tag":
        s = {"t": "tag", "name": draw(st.sampled_from(["f", "g", "h"]))}
        if draw(st.booleans()):
            s["param"] = [draw(st.sampled_from(["A", "B", "S.X"])), draw(st.sampled_from([None, None, 7]))]
        return s
    if t == "plain":
        return {"t": "plain", "name": draw(st.sampled_from(["u", "v"]))}
    if t == "helper":
        h = draw(st.sampled_from(["add", "subtract", "multiply", "left_multiply", "divide_by", "divide_into", "eq", "gt"]))
        arg = draw(st.one_of(st.sampled_from(NUMS), st.fixed_dictionaries({"opt": st.sampled_from(["A", "B", "T"])})))
        return {"t": "helper", "name": h, "arg": arg}
    if t == "empty":
        return {"t": "empty"}
    return {"t": "nested", "steps": draw(st.lists(step_specs(depth + 1), min_size=0, max_size=3))}


@st.composite
def composition_cases(draw):
    steps = draw(st.lists(step_specs(), min_size=1, max_size=6))
    o = {}
    for k in ["A", "B", "T", "S.X"]:
        if draw(st.integers(0, 4)) > 0:
            o = U.dotted_set(o, k, draw(st.sampled_from(NUMS + ["a", None])))
    return {"steps": steps, "input": draw(st.sampled_from(NUMS + ["a", None, [1, 2]])), "options": o}


# ---- helpers ----------------------------------------------------------------------------------------------------------
def _lst(x):
    return list(x) if not isinstance(x, (list, dict, str, int, float, bool, type(None), set, tuple)) else x


def _mp(x):
    return dict(x) if isinstance(x, pytypes.MappingProxyType) else x


class NC:
    """An operand type whose arithmetic is not commutative: every operation records (operator, left, right)."""

    def __init__(self, tag):
        self.tag = tag

    def _l(self, op, other):
        return (op, self.tag, getattr(other, "tag", other))

    def _r(self, op, other):
        return (op, getattr(other, "tag", other), self.tag)

    def __add__(self, o): return self._l("+", o)          # noqa: E704
    def __radd__(self, o): return self._r("+", o)         # noqa: E704
    def __sub__(self, o): return self._l("-", o)          # noqa: E704
    def __rsub__(self, o): return self._r("-", o)         # noqa: E704
    def __mul__(self, o): return self._l("*", o)          # noqa: E704
    def __rmul__(self, o): return self._r("*", o)         # noqa: E704
    def __truediv__(self, o): return self._l("/", o)      # noqa: E704
    def __rtruediv__(self, o): return self._r("/", o)     # noqa: E704
    def __mod__(self, o): return self._l("%", o)          # noqa: E704
    def __rmod__(self, o): return self._r("%", o)         # noqa: E704
    def __repr__(self): return f"NC({self.tag!r})"         # noqa: E704


NCS = [NC("m"), NC("n")]
INC = lambda v: v + 1          # noqa: E731
ISEVEN = lambda v: v % 2 == 0  # noqa: E731
ADD2 = lambda a, b: a + b      # noqa: E731
COUNT = lambda acc, x: (acc or 0) + 1   # noqa: E731   (an accumulator that may legitimately start as None)

# name -> (build(args) -> step, python(input, *args), [argument domains], input domain, post-processing of lazy results)
# an argument domain is a list of JSON values (option-capable) or ("fn", callable) for function arguments
ROWS = {
    "add": (lambda v: F.add(v), lambda x, v: x + v, [NUMS + ["a"]], NUMS + ["b", [1]]),
    "subtract": (lambda v: F.subtract(v), lambda x, v: x - v, [NUMS], NUMS + ["b"]),
    "multiply": (lambda v: F.multiply(v), lambda x, v: x * v, [NUMS], NUMS + ["ab", [1]]),
    "left_multiply": (lambda v: F.left_multiply(v), lambda x, v: v * x, [NUMS + ["ab"]], NUMS),
    "divide_by": (lambda v: F.divide_by(v), lambda x, v: x / v, [NUMS], NUMS),
    "divide_into": (lambda v: F.divide_into(v), lambda x, v: v / x, [NUMS], NUMS),
    "modulo": (lambda v: F.modulo(v), lambda x, v: x % v, [[1, 2, 3, 0, -2]], [0, 1, 5, -3, 7]),
    "add_nc": (lambda v: F.add(v), lambda x, v: x + v, [("obj", NCS + [2])], NCS + [3]),
    "subtract_nc": (lambda v: F.subtract(v), lambda x, v: x - v, [("obj", NCS + [2])], NCS + [3]),
    "multiply_nc": (lambda v: F.multiply(v), lambda x, v: x * v, [("obj", NCS + [2])], NCS + [3]),
    "left_multiply_nc": (lambda v: F.left_multiply(v), lambda x, v: v * x, [("obj", NCS + [2])], NCS + [3]),
    "divide_by_nc": (lambda v: F.divide_by(v), lambda x, v: x / v, [("obj", NCS + [2])], NCS + [3]),
    "divide_into_nc": (lambda v: F.divide_into(v), lambda x, v: v / x, [("obj", NCS + [2])], NCS + [3]),
    "modulo_nc": (lambda v: F.modulo(v), lambda x, v: x % v, [("obj", NCS + [2])], NCS + [3]),
    "negate": (lambda: F.negate, lambda x: -x, [], NUMS + ["a"]),
    "length": (lambda: F.length, lambda x: len(x), [], [[], [1, 2], "abc", {"a": 1}, 5]),
    "eq": (lambda v: F.eq(v), lambda x, v: x == v, [NUMS + ["a", None]], NUMS + ["a", None, True]),
    "ne": (lambda v: F.ne(v), lambda x, v: x != v, [NUMS + ["a", None]], NUMS + ["a", None, True]),
    "gt": (lambda v: F.gt(v), lambda x, v: x > v, [NUMS + ["a"]], NUMS + ["b", None]),
    "ge": (lambda v: F.ge(v), lambda x, v: x >= v, [NUMS + ["a"]], NUMS + ["b", None]),
    "lt": (lambda v: F.lt(v), lambda x, v: x < v, [NUMS + ["a"]], NUMS + ["b", None]),
    "le": (lambda v: F.le(v), lambda x, v: x <= v, [NUMS + ["a"]], NUMS + ["b", None]),
    "has_remainder": (lambda d, r: F.has_remainder(d, r), lambda x, d, r: x % d == r, [[1, 2, 3, 0], [0, 1, 2]], [0, 1, 4, 5, -1]),
    "positive": (lambda: F.positive, lambda x: x > 0, [], NUMS + [None]),
    "negative": (lambda: F.negative, lambda x: x < 0, [], NUMS + ["a"]),
    "non_positive": (lambda: F.non_positive, lambda x: x <= 0, [], NUMS),
    "non_negative": (lambda: F.non_negative, lambda x: x >= 0, [], NUMS),
    "even": (lambda: F.even, lambda x: x % 2 == 0, [], [0, 1, 2, -3, 2.5]),
    "odd": (lambda: F.odd, lambda x: x % 2 == 1, [], [0, 1, 2, -3, 2.5]),
    "is_none": (lambda: F.is_none, lambda x: x is None, [], [None, 0, False, "", []]),
    "is_not_none": (lambda: F.is_not_none, lambda x: x is not None, [], [None, 0, False, "", []]),
    "is_in": (lambda c: F.is_in(c), lambda x, c: x in c, [[[1, 2], [], "abc", {"a": 1}, 5]], [1, "a", None, "bc"]),
    "is_not_in": (lambda c: F.is_not_in(c), lambda x, c: x not in c, [[[1, 2], [], "abc", {"a": 1}, 5]], [1, "a", None, "bc"]),
    "one_of": (lambda a, b: F.one_of(a, b), lambda x, a, b: x in (a, b), [[1, "a", None], [2, "a", True]], [1, 2, "a", None, True]),
    "none_of": (lambda a, b: F.none_of(a, b), lambda x, a, b: x not in (a, b), [[1, "a", None], [2, "a", True]], [1, 2, "a", None, True]),
    "contains": (lambda v: F.contains(v), lambda x, v: v in x, [[1, "a", None]], [[1, 2], "abc", {"a": 1}, [], 5]),
    "does_not_contain": (lambda v: F.does_not_contain(v), lambda x, v: v not in x, [[1, "a", None]], [[1, 2], "abc", {"a": 1}, [], 5]),
    "intersects": (lambda c: F.intersects(c), lambda x, c: bool(set(x) & set(c)), [[[1, 2], [], "ab"]], [[2, 3], [], "bc", 5]),
    "disjoint_from": (lambda c: F.disjoint_from(c), lambda x, c: not (set(x) & set(c)), [[[1, 2], [], "ab"]], [[2, 3], [], "bc", 5]),
    "intersect": (lambda c: F.intersect(c), lambda x, c: set(x) & set(c), [[[1, 2, 3], [], "ab"]], [[2, 3, 4], [], "bc", 5]),
    "union": (lambda c: F.union(c), lambda x, c: set(x) | set(c), [[[1, 2, 3], [], "ab"]], [[2, 3, 4], [], "bc", 5]),
    "difference": (lambda c: F.difference(c), lambda x, c: set(x) - set(c), [[[1, 2, 3], [], "ab"]], [[2, 3, 4], [], "bc", 5]),
    "symmetric_difference": (lambda c: F.symmetric_difference(c), lambda x, c: set(x) ^ set(c), [[[1, 2, 3], [], "ab"]], [[2, 3, 4], [], "bc", 5]),
    "concat": (lambda c: F.concat(c) + list, lambda x, c: list(itertools.chain(x, c)), [[[4, 5], [], "ab"]], [[1, 2], [], "x", 5]),
    "append": (lambda v: F.append(v) + list, lambda x, v: list(x) + [v], [[4, "a", None, [1]]], [[1, 2], [], "x", 5]),
    "get": (lambda k: F.get(k), lambda x, k: x[k], [[0, 1, "a", 5]], [[1, 2], {"a": 1}, "xy", 5]),
    "get_default": (lambda k, d: F.get(k, d), lambda x, k, d: _get(x, k, d), [[0, 1, "a", 5], [None, 9]], [[1, 2], {"a": 1}, "xy"]),
    "get_from": (lambda c: F.get_from(c), lambda x, c: c[x], [[[1, 2], {"a": 1}, "xy"]], [0, 1, "a", 5]),
    "get_from_default": (lambda c, d: F.get_from(c, d), lambda x, c, d: _get(c, x, d), [[[1, 2], {"a": 1}, "xy"], [None, 9]], [0, 1, "a", 5]),
    "merge": (lambda m: F.merge(m), lambda x, m: {**x, **m}, [[{"a": 2}, {}, {"b": 3}]], [{"a": 1}, {}, {"c": 0}, 5]),
    "map": (lambda f: F.map(f) + list, lambda x, f: list(map(f, x)), [("fn", INC)], [[1, 2], [], [1, "a"], 5]),
    "filter": (lambda f: F.filter(f) + list, lambda x, f: list(filter(f, x)), [("fn", ISEVEN)], [[1, 2, 4], [], [1, "a"], 5]),
    "reduce": (lambda f: F.reduce(f), lambda x, f: functools.reduce(f, x), [("fn", ADD2)], [[1, 2, 3], [], ["a", "b"], 5]),
    "reduce_initial": (lambda f, i: F.reduce(f, i), lambda x, f, i: functools.reduce(f, x, i), [("fn", ADD2), [0, 10, None, "s"]], [[1, 2, 3], [], 5, ["a"]]),
    "reduce_initial_count": (lambda f, i: F.reduce(f, i), lambda x, f, i: functools.reduce(f, x, i), [("fn", COUNT), [None, 0, 5, False]], [[10, 20, 30], [], [None]]),
    "flatmap": (lambda f: F.flatmap(f) + list, lambda x, f: list(itertools.chain.from_iterable(map(f, x))), [("fn", lambda v: [v, v])], [[1, 2], [], 5]),
    "flatten": (lambda: F.flatten + list, lambda x: list(itertools.chain.from_iterable(x)), [], [[[1], [2, 3]], [], [1], 5]),
    "into": (lambda f: F.into(f), lambda x, f: f(**x) if isinstance(x, dict) else f(*x), [("fn", ADD2)], [[1, 2], {"a": 1, "b": 2}, [1], 5]),
    "map_items": (lambda f: F.map_items(f) + dict, lambda x, f: {f(k, v)[0]: f(k, v)[1] for k, v in x.items()}, [("fn", lambda k, v: (v, k))], [{"a": 1, "b": 2}, {}, 5]),
    "map_keys": (lambda f: F.map_keys(f) + dict, lambda x, f: {f(k): v for k, v in x.items()}, [("fn", lambda k: k + "!")], [{"a": 1, "b": 2}, {}, {1: 2}]),
    "map_values": (lambda f: F.map_values(f) + dict, lambda x, f: {k: f(v) for k, v in x.items()}, [("fn", INC)], [{"a": 1, "b": 2}, {}, {"a": "x"}]),
    "filter_items": (lambda f: F.filter_items(f) + dict, lambda x, f: {k: v for k, v in x.items() if f(k, v)}, [("fn", lambda k, v: v > 1)], [{"a": 1, "b": 2}, {}, 5]),
    "filter_keys": (lambda f: F.filter_keys(f) + dict, lambda x, f: {k: v for k, v in x.items() if f(k)}, [("fn", lambda k: k == "a")], [{"a": 1, "b": 2}, {}]),
    "filter_values": (lambda f: F.filter_values(f) + dict, lambda x, f: {k: v for k, v in x.items() if f(v)}, [("fn", ISEVEN)], [{"a": 1, "b": 2}, {}, {"a": "x"}]),
    "instance_of": (lambda: F.instance_of(int, str), lambda x: isinstance(x, (int, str)), [], [1, "a", None, 2.5, [1]]),
    "all": (lambda: F.all(lambda v: v > 0, ISEVEN), lambda x: all(f(x) for f in (lambda v: v > 0, ISEVEN)), [], [2, 3, -2, 0, "a"]),
    "any": (lambda: F.any(lambda v: v > 2, ISEVEN), lambda x: any(f(x) for f in (lambda v: v > 2, ISEVEN)), [], [2, 3, 1, 0, "a"]),
    # predicates that are themselves pipelines (one predicate each: a composed function, not its steps)
    "all_pipeline": (lambda v: F.all(F.add(v) + F.gt(0)), lambda x, v: all([(x + v) > 0]), [[-5, 0, 5]], [3, -3, 7, 0, "a"]),
    "any_pipeline": (lambda v: F.any(F.add(v) + F.gt(0)), lambda x, v: any([(x + v) > 0]), [[-5, 0, 5]], [3, -3, 7, 0, "a"]),
    "all_pipeline3": (lambda v: F.all(F.add(v) + F.negate + F.lt(0), ISEVEN), lambda x, v: all([-(x + v) < 0, ISEVEN(x)]), [[-5, 0, 5]], [4, -4, 6, 0]),
    "all_single": (lambda: F.all(ISEVEN), lambda x: all([ISEVEN(x)]), [], [2, 3, "a"]),
    "any_single": (lambda: F.any(ISEVEN), lambda x: any([ISEVEN(x)]), [], [2, 3, "a"]),
    "invert": (lambda: F.invert(ISEVEN), lambda x: not ISEVEN(x), [], [1, 2, "a"]),
    "invert_default": (lambda: F.invert(), lambda x: not x, [], [True, False, 0, "a", []]),
    "ensure": (lambda: F.ensure(ISEVEN), lambda x: _ensure(x), [], [1, 2, "a"]),
    "get_attribute": (lambda n: F.get_attribute(n), lambda x, n: getattr(x, n), [["real", "imag", "nope"]], [1, 2.5, "a"]),
    "call_method": (lambda n: F.call_method(n), lambda x, n: getattr(x, n)(), [["upper", "strip", "nope"]], ["ab ", " c", 1]),
    "call_method_args": (lambda n: F.call_method(n, "a", "z"), lambda x, n: getattr(x, n)("a", "z"), [["replace", "nope"]], ["banana", "", 1]),
    "partial": (lambda v: F.partial(ADD2, b=v), lambda x, v: ADD2(x, b=v), [NUMS + ["a"]], NUMS + ["b"]),
}
ALIASES = {"add_nc": "add", "subtract_nc": "subtract", "multiply_nc": "multiply", "left_multiply_nc": "left_multiply", "divide_by_nc": "divide_by",
           "divide_into_nc": "divide_into", "modulo_nc": "modulo", "get_default": "get", "get_from_default": "get_from", "reduce_initial": "reduce", "reduce_initial_count": "reduce", "all_pipeline": "all", "any_pipeline": "any", "all_pipeline3": "all", "all_single": "all", "any_single": "any", "invert_default": "invert", "call_method_args": "call_method"}


def _get(c, k, d):
    try:
        return c[k]
    except (KeyError, IndexError):
        return d


def _ensure(x):
    assert ISEVEN(x)
    return x


def public_helpers():
    out = []
    for name in sorted(dir(F)):
        if name.startswith("_"):
            continue
        obj = getattr(F, name)
        if isinstance(obj, PipelineStep) or (inspect.isfunction(obj) and obj.__module__ == F.__name__):
            out.append(name)
    return out


def check_helper(case, ctx):
    row = ROWS[case["helper"]]
    build, py, doms, _ = row
    args_py, args_lab, okeys, o = [], [], set(), {}
    for i, (dom, how) in enumerate(zip(doms, case["args"])):
        if isinstance(dom, tuple) and dom[0] == "fn":
            args_py.append(dom[1])
            args_lab.append(dom[1])
            continue
        if isinstance(dom, tuple) and dom[0] == "obj":   # arbitrary Python objects: only as constants
            v = dom[1][how["i"] % len(dom[1])]
            args_py.append(v)
            args_lab.append(v)
            continue
        v = dom[how["i"] % len(dom)]
        args_py.append(v)
        if how["as"] == "option":
            key = ["A", "S.X", "B"][i % 3]
            o = U.dotted_set(o, key, v)
            args_lab.append(Option(key))
            okeys.add(key)
        else:
            args_lab.append(v)
    x = row[3][case["input"] % len(row[3])]
    step = build(*args_lab)
    expected = outcome(lambda: _norm(py(x, *args_py)))
    if isinstance(x, NC):
        got = outcome(lambda: _norm((Value(x) >> step)(o)))
    else:
        o["IN"] = x
        got = outcome(lambda: _norm((Option("IN") >> step)(o)))
    if got != expected:
        raise Violation("helper-differs-from-python", f"{case['helper']}{tuple(args_py) if doms else ''} on input {x!r} (args as {[h['as'] for h in case['args']]}): "
                                                      f"labrea {got} but the Python operation gives {expected}")
    got2 = outcome(lambda: _norm(step.transform(x, o))) if hasattr(step, "transform") else expected
    if got2 != expected:
        raise Violation("helper-transform-differs", f"{case['helper']} transform({x!r}) gives {got2}, expected {expected}")
    if okeys:
        o.setdefault("IN", 0)
        E = (Option("IN") >> step).explain(o)
        K = (Option("IN") >> step).keys(o)
        if not okeys <= E or not okeys <= K:
            raise Violation("helper-parameter-not-keyed", f"{case['helper']}: argument options {sorted(okeys)} but keys {sorted(K)} explain {sorted(E)}")
    ctx.done(case, bool(okeys), ["helper:" + case["helper"], "ok" if expected[0] == "ok" else "raises"])


def _norm(v):
    if isinstance(v, pytypes.MappingProxyType):
        return dict(v)
    return v


def enum_helpers(ctx):
    names = public_helpers()
    covered = {ALIASES.get(r, r) for r in ROWS}
    ctx.extras["helpers_public"] = [len(names)]
    ctx.extras["helpers_without_row"] = [n for n in names if n not in covered]
    k = 0
    for name, row in ROWS.items():
        doms = row[2]
        opt_positions = [i for i, d in enumerate(doms) if not isinstance(d, tuple)]
        for xi in range(len(row[3])):
            idx_ranges = [range(len(d)) if not isinstance(d, tuple) else (range(len(d[1])) if d[0] == "obj" else range(1)) for d in doms]
            for idxs in itertools.product(*idx_ranges):
                for forms in itertools.product(["const", "option"], repeat=len(opt_positions)):
                    k += 1
                    if k % ctx.nshards != ctx.shard:
                        continue
                    args = []
                    fi = 0
                    for i, d in enumerate(doms):
                        if isinstance(d, tuple):
                            args.append({"i": idxs[i] if d[0] == "obj" else 0, "as": "const"})
                        else:
                            args.append({"i": idxs[i], "as": forms[fi]})
                            fi += 1
                    yield {"helper": name, "args": args, "input": xi}
    ctx.exhaustive["helper-table-x-inputs-x-argument-forms"] = ctx.exhaustive.get("helper-table-x-inputs-x-argument-forms", 0) + k // ctx.nshards


sem.HELPER_PY = {"add": lambda x, v: x + v, "subtract": lambda x, v: x - v, "multiply": lambda x, v: x * v, "left_multiply": lambda x, v: v * x,
                 "divide_by": lambda x, v: x / v, "divide_into": lambda x, v: v / x, "eq": lambda x, v: x == v, "gt": lambda x, v: x > v}

PARTS = [
    Part("composition", check_composition, strategy=lambda ctx: composition_cases(), budget={"quick": 600, "thorough": 2500}),
    Part("helpers", check_helper, enumerate=enum_helpers, budget={"quick": None, "thorough": None}),
]
