"""C14 — handler scoping: the entered runtime serves; leaving a block restores the prior."""
from __future__ import annotations

import itertools
import threading

from hypothesis import strategies as st
from labrea import runtime
from labrea.runtime import Request, Runtime

from ..harness import Part, Violation

PID = "C14"
LEVEL = "exploration"
RULE = ("a history of operations enter(runtime object: fresh | derived from the current one | derived from another pool object | "
        "an object entered before | the currently active object), exit, exit-by-exception, derive (type->handler and mapping "
        "forms), register-default (for a request type that has none yet), run(request type) is interpreted with real `with` "
        "blocks in a NEW thread that either already has a runtime (touched current_runtime()) or has none, side by side "
        "with a stack model (entered runtime = its overrides over the global default table as of now). After every run "
        "step the handler tag served must equal the model (TypeError when no handler); after every exit the model's "
        "current runtime serves again; at the end the thread's runtime is the one from before the outermost block; "
        "deriving never changes what the parent serves. part 'exhaustive': ALL well-nested histories up to length 5 "
        "(quick) / 6 (thorough) over a reduced alphabet; part 'random': histories up to length 25 over the full alphabet. "
        "Non-trivial = the history leaves a block (normally or by exception) and then runs a request, or re-enters an "
        "active object, or registers a default late; distinct = distinct history hash.")
ASSUMPTIONS = [
    "after a default handler is registered a second time, requests of that type are only checked in runtimes that held no handler for it when they were created (for the others the property leaves open which default serves)",
    "each history runs in a new thread; the global default table only grows (fresh request types per case)",
]
EXHAUSTIVE_ALL = False


class _Boom(Exception):
    pass


def interpret(ops, touched):
    """Run ops in the current (new) thread; returns the first discrepancy or None, plus labels."""
    labels = set()
    types = [type(f"T{i}", (Request,), {"__init__": lambda self: setattr(self, "options", {})}) for i in range(3)]
    defaults = {}          # model: type index -> tag
    for i in (0, 1):
        tag = ("default", i)
        runtime.handle_by_default(types[i], (lambda t: (lambda req: t))(tag))
        defaults[i] = tag
    handlers = {j: (lambda t: (lambda req: t))(("h", j)) for j in range(3)}

    def failing(req):
        # a handler that fails with an exception of its own (a dict-backed handler missing an entry): the failure is
        # the handler's answer - the request must not be passed on to another handler
        raise KeyError("h2")
    handlers[2] = failing

    base_obj = None
    if touched:
        base_obj = runtime.current_runtime()
    # model: each runtime object -> dict of overrides {type idx: tag}
    pool = []            # [(Runtime object, overrides, request types that had a default when it was created)]
    redefaulted = set()  # type indices whose default was registered more than once
    AMBIGUOUS = object()
    base_had = set(defaults) if touched else None   # None: the thread's runtime does not exist yet
    stack = []           # entered: indices into pool; base below
    base_over = {}

    def cur_over():
        return pool[stack[-1]][1] if stack else base_over

    def cur_had():
        return pool[stack[-1]][2] if stack else base_had

    def expect(ti):
        o = cur_over()
        if ti in o:
            return ("raised", "KeyError", "'h2'") if o[ti] == ("h", 2) else o[ti]
        if ti in defaults:
            had = cur_had()
            if ti in redefaulted and (had is None or ti in had):
                # the runtime copied an earlier default for this type: which of the two serves is left open
                return AMBIGUOUS
            return defaults[ti]
        return TypeError

    def do_run(ti, where):
        exp = expect(ti)
        nonlocal base_had
        if base_had is None and not stack:
            base_had = set(defaults)   # the thread's implicit runtime is created by this request
        try:
            got = types[ti]().run()
        except TypeError:
            got = TypeError
        except Exception as e:   # noqa
            got = ("raised", type(e).__name__, str(e)[:80])
        if exp is AMBIGUOUS:
            labels.add("ambiguous-after-redefault-skipped")
            return None
        if got != exp:
            return f"{where}: request T{ti} served by {got!r} but the model says {exp!r}"
        return None

    def probe(where):
        for ti in range(3):
            bad = do_run(ti, where)
            if bad:
                return bad
        return None

    pos = [0]

    def block():
        """Interpret ops until the matching exit; returns discrepancy or None."""
        nonlocal base_had
        while pos[0] < len(ops):
            op = ops[pos[0]]
            pos[0] += 1
            kind = op[0]
            if kind == "run":
                bad = do_run(op[1] % 3, f"op {pos[0] - 1} {op}")
                if bad:
                    return bad
            elif kind == "default":
                ti = 2
                if ti not in defaults:
                    tag = ("default", ti)
                    runtime.handle_by_default(types[ti], (lambda t: (lambda req: t))(tag))
                    defaults[ti] = tag
                    labels.add("late-default")
            elif kind == "redefault":
                ti = 2
                if ti in defaults:
                    # a second registration: runtimes that never held a handler for the type must see the new one
                    tag = ("default", ti, len(redefaulted) + pos[0])
                    runtime.handle_by_default(types[ti], (lambda t: (lambda req: t))(tag))
                    defaults[ti] = tag
                    redefaulted.add(ti)
                    labels.add("default-registered-again")
            elif kind == "derive":
                _, src, ti, hj, form = op
                ti, hj = ti % 3, hj % 3
                if src == "current":
                    if base_had is None and not stack:
                        base_had = set(defaults)
                    parent_obj, parent_over, parent_had = runtime.current_runtime(), cur_over(), (cur_had() or set())
                    labels.add("derived-here")
                elif pool:
                    parent_obj, parent_over, parent_had = pool[src % len(pool)]
                    labels.add("derived-elsewhere")
                else:
                    parent_obj, parent_over, parent_had = Runtime(), {}, set(defaults)
                before = {t: parent_over.get(t) for t in range(3)}
                if form == "mapping":
                    new = parent_obj.handle({types[ti]: handlers[hj]})
                else:
                    new = parent_obj.handle(types[ti], handlers[hj])
                pool.append((new, {**parent_over, ti: ("h", hj)}, set(parent_had) | set(defaults)))
                if new is parent_obj:
                    return f"op {pos[0] - 1} {op}: handle() returned the runtime it derives from"
                if src != "current" and {t: parent_over.get(t) for t in range(3)} != before:
                    return "model error"
                bad = probe(f"after derive {op} (deriving must not change the current runtime)")
                if bad:
                    return bad
            elif kind == "fresh":
                pool.append((Runtime(), {}, set(defaults)))
            elif kind == "enter":
                if not pool:
                    pool.append((Runtime(), {}, set(defaults)))
                which = op[1]
                if which == "active" and stack:
                    idx = stack[-1]
                    labels.add("reentry")
                elif which == "reused" and len(pool) > 1:
                    idx = op[2] % len(pool)
                    if idx in stack:
                        labels.add("reentry")
                else:
                    idx = op[2] % len(pool)
                    if idx in stack:
                        labels.add("reentry")
                obj = pool[idx][0]
                stack.append(idx)
                result = None
                try:
                    with obj:
                        bad = probe(f"inside block entered at op {pos[0] - 1} {op}")
                        if bad:
                            return bad
                        result = block()
                        if result == "EXC":
                            raise _Boom()
                except _Boom:
                    labels.add("exception-exit")
                    result = None
                stack.pop()
                if result:
                    return result
                labels.add("left-a-block")
                bad = probe(f"after leaving the block entered at {op} (stack depth now {len(stack)})")
                if bad:
                    return bad
            elif kind == "exit":
                if stack:
                    return None
            elif kind == "exit_exc":
                if stack:
                    return "EXC"
        return None

    bad = block()
    while not bad and stack:
        # ops ran out inside open blocks: unwinding happens through the recursion above (never reached)
        break
    if bad in (None, "EXC"):
        bad = None
    if not bad:
        # everything has been exited (recursion unwound): the prior runtime must be current again
        if touched and runtime.current_runtime() is not base_obj:
            bad = "after the outermost block the thread's runtime is not the object that was current before it"
        else:
            bad = probe("after the whole history")
    if not touched:
        labels.add("thread-without-runtime")
    return bad, labels


def run_in_thread(ops, touched):
    box = {}

    def target():
        try:
            box["r"] = interpret(ops, touched)
        except BaseException as e:   # harness or labrea raised something unexpected
            import traceback
            box["r"] = (f"unexpected {type(e).__name__}: {e} :: {traceback.format_exc()[-600:]}", set())

    before = set(getattr(runtime, "_DEFAULT_HANDLERS", {}))
    t = threading.Thread(target=target)
    t.start()
    t.join()
    # housekeeping only (keeps the per-case cost constant): forget this case's request types and thread
    table = getattr(runtime, "_DEFAULT_HANDLERS", None)
    if isinstance(table, dict):
        for k in set(table) - before:
            table.pop(k, None)
    threads = getattr(runtime, "_RUNTIMES", None)
    if isinstance(threads, dict):
        threads.pop(t, None)
    return box["r"]


def close_blocks(ops):
    """Make the history well nested: append the exits still owed."""
    depth = 0
    out = []
    for op in ops:
        if op[0] == "enter":
            depth += 1
        elif op[0] in ("exit", "exit_exc"):
            if depth == 0:
                continue
            depth -= 1
        out.append(op)
    out += [("exit",)] * depth
    return out


def check(case, ctx):
    ops = close_blocks([tuple(o) for o in case["ops"]])
    bad, labels = run_in_thread(ops, case["touched"])
    if bad:
        raise Violation("handler-scoping", f"touched={case['touched']} ops={ops}: {bad}")
    kinds = [o[0] for o in ops]
    after_exit_run = any(k in ("exit", "exit_exc") for k in kinds)
    ctx.done(case, after_exit_run or "reentry" in labels or "late-default" in labels, labels)


ALPHABET_SMALL = [("enter", "new", 0), ("enter", "active", 0), ("enter", "reused", 1), ("exit",), ("exit_exc",),
                  ("derive", "current", 0, 0, "pair"), ("derive", 0, 1, 1, "mapping"), ("default",), ("redefault",), ("run", 2)]


def enum_small(ctx):
    n = 5 if ctx.tier == "quick" else 6
    k = 0
    total = 0
    for length in range(1, n + 1):
        for ops in itertools.product(ALPHABET_SMALL, repeat=length):
            # prune: exits without an open block are dropped by close_blocks -> skip duplicates
            depth = 0
            ok = True
            for op in ops:
                if op[0] == "enter":
                    depth += 1
                elif op[0] in ("exit", "exit_exc"):
                    if depth == 0:
                        ok = False
                        break
                    depth -= 1
            if not ok:
                continue
            for touched in (True, False):
                k += 1
                if k % ctx.nshards != ctx.shard:
                    continue
                total += 1
                yield {"ops": [list(o) for o in ops], "touched": touched}
    ctx.exhaustive[f"well-nested-histories-len<={n}-alphabet-{len(ALPHABET_SMALL)}"] = total


def op_strategy():
    return st.one_of(
        st.tuples(st.just("enter"), st.sampled_from(["new", "active", "reused"]), st.integers(0, 5)),
        st.tuples(st.just("enter"), st.sampled_from(["new", "active", "reused"]), st.integers(0, 5)),
        st.just(("exit",)), st.just(("exit",)), st.just(("exit_exc",)),
        st.tuples(st.just("derive"), st.one_of(st.just("current"), st.integers(0, 5)), st.integers(0, 2), st.integers(0, 2), st.sampled_from(["pair", "mapping"])),
        st.just(("fresh",)), st.just(("default",)), st.just(("redefault",)),
        st.tuples(st.just("run"), st.integers(0, 2)),
    ).map(list)


PARTS = [
    Part("exhaustive", check, enumerate=enum_small, budget={"quick": None, "thorough": None}),
    Part("random", check, strategy=lambda ctx: st.fixed_dictionaries({"ops": st.lists(op_strategy(), min_size=1, max_size=25), "touched": st.booleans()}),
         budget={"quick": 500, "thorough": 3000}),
]
