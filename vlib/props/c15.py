"""C15 — threads: handler contexts are thread-local; concurrent register/evaluate safe."""
from __future__ import annotations

import itertools
import threading

import labrea
import labrea.cache
import labrea.logging

from hypothesis import strategies as st
from labrea import Option, dataset, runtime
from labrea.runtime import Request, Runtime
from labrea.types import Value

from ..harness import Part, Violation
from ..sched import Deadlock, Scheduler, patch_locks

PID = "C15"
LEVEL = "exploration"
RULE = ("2-3 real threads run short programs under a harness-owned deterministic scheduler (vlib/sched.py): inside "
        "labrea/runtime.py, overload.py and cache.py every line, and inside register / __enter__ / __exit__ / inherit / "
        "current_runtime / MemoryCache.get/set/exists / Cached.evaluate every bytecode, is a yield point where the schedule "
        "may preempt; labrea's locks are replaced by scheduler-aware locks. Scenarios: S1 enter/exit/request programs over "
        "shared and private runtime objects (oracle: per-thread stack model, independent of the schedule); S2 parent / "
        "worker with inherit() (worker must be served like one of the states the parent was in while inherit ran); S3 "
        "concurrent register/overload on shared datasets (all aliases present and dispatching afterwards); S4 concurrent "
        "evaluation of shared cached datasets with different options (each thread gets the value of its own options). "
        "part 'systematic': for a fixed family of program sets ALL schedules with one preemption at any yield point, and "
        "schedules with two preemptions (quick: pairs on a stride of about 1/48 (handler scenarios) or 1/22 (others) of the run with a seed-dependent offset; "
        "thorough: every pair for short runs, a 1/90 stride for long ones); part 'random': generated programs x random schedules with up to 6 preemptions; part 'lifetimes' (no scheduler, "
        "sequential): main enters/leaves handler blocks while it starts short-lived threads one after the other (joined, so "
        "thread identifiers are recycled) and hands tasks to long-lived pool workers, every worker program optionally starting "
        "with inherit(main); oracle: a thread is served according to its own blocks and its own latest inherit() only "
        "(non-trivial there = an identifier was recycled or a pool worker reused, and some worker inherited). Non-trivial "
        "= at least one preemption was actually taken while the preempted thread was inside traced labrea code; distinct "
        "= distinct (scenario, programs, schedule) hash.")
ASSUMPTIONS = [
    "preemption granularity is the Python bytecode (dict operations inside C are atomic under the GIL)",
    "labrea's module-level locks are replaced by scheduler-aware locks through module attributes (no repository change)",
    "at most 3 threads",
]
EXHAUSTIVE_ALL = False

TRACED = {"S1": ("labrea/runtime.py",), "S2": ("labrea/runtime.py",), "S3": ("labrea/overload.py",), "S4": ("labrea/cache.py",)}
_CUR = {}


def _types():
    ts = [type(f"T{i}", (Request,), {"__init__": lambda self: setattr(self, "options", {})}) for i in range(2)]
    for i, t in enumerate(ts):
        runtime.handle_by_default(t, (lambda tag: (lambda req: tag))(("default", i)))
    return ts


def _cleanup(before):
    table = getattr(runtime, "_DEFAULT_HANDLERS", None)
    if isinstance(table, dict):
        for k in set(table) - before:
            table.pop(k, None)


# ---- scenario builders: return (programs, verify(results)) -----------------------------------------------------------
def scenario_s1(spec, types):
    """spec: {'pool': [[ [type idx, handler idx], ...], ...], 'threads': [[op, ...], ...]}"""
    handlers = {j: (lambda tag: (lambda req: tag))(("h", j)) for j in range(4)}
    pool = []
    for overrides in spec["pool"]:
        pool.append((Runtime().handle({types[t % 2]: handlers[h % 4] for t, h in overrides}) if overrides else Runtime(),
                     {t % 2: ("h", h % 4) for t, h in overrides}))
    progress = [0] * len(spec["threads"])
    models = []

    def model_states(ops):
        """List of 'current overrides' after k completed ops, k = 0..len(ops)."""
        stack, states = [], [{}]
        for op in ops:
            if op[0] == "enter":
                stack.append(pool[op[1] % len(pool)][1])
            elif op[0] == "exit" and stack:
                stack.pop()
            states.append(dict(stack[-1]) if stack else {})
        return states

    def expected_tag(over, ti):
        return over.get(ti, ("default", ti))

    def make(i, ops):
        def program():
            out = []
            entered = []
            for k, op in enumerate(ops):
                if op[0] == "touch":
                    runtime.current_runtime()
                elif op[0] == "enter":
                    obj = pool[op[1] % len(pool)][0]
                    obj.__enter__()
                    entered.append(obj)
                elif op[0] == "exit":
                    if entered:
                        entered.pop().__exit__(None, None, None)
                elif op[0] == "run":
                    try:
                        out.append((k, types[op[1] % 2]().run()))
                    except Exception as e:  # noqa
                        out.append((k, ("raised", type(e).__name__, str(e)[:60])))
                elif op[0] == "inherit":
                    before = progress[op[1]]
                    runtime.inherit(_CUR["sched"].threads[op[1]])
                    after = progress[op[1]]
                    out.append((k, ("inherit-window", before, after)))
                progress[i] = k + 1
            while entered:
                entered.pop().__exit__(None, None, None)
            return out
        return program

    threads_of = {}
    programs = [make(i, ops) for i, ops in enumerate(spec["threads"])]

    def verify(results, sched):
        for i, ops in enumerate(spec["threads"]):
            kind, val = results[i]
            if kind != "ok":
                return f"thread {i} raised {val!r}"
            states = model_states(ops)
            inherited = None
            for k, got in val:
                if isinstance(got, tuple) and got and got[0] == "inherit-window":
                    parent = ops[k][1]
                    pstates = model_states(spec["threads"][parent])
                    lo, hi = got[1], min(got[2] + 1, len(pstates) - 1)
                    inherited = [pstates[x] for x in range(lo, hi + 1)]
                    continue
                ti = ops[k][1] % 2
                own = states[k]
                if inherited is not None and not own:
                    allowed = {expected_tag(s, ti) for s in inherited}
                    if got not in allowed:
                        return (f"thread {i} op {k} {ops[k]}: after inherit() request T{ti} was served by {got!r}; the parent's handlers "
                                f"while inherit ran allow {sorted(map(str, allowed))}")
                    # later requests must agree with the same parent state
                    inherited = [s for s in inherited if expected_tag(s, ti) == got]
                else:
                    exp = expected_tag(own, ti)
                    if got != exp:
                        return (f"thread {i} op {k} {ops[k]}: request T{ti} served by {got!r} but this thread's own blocks say {exp!r} "
                                f"(program {ops})")
        return None

    return programs, verify, threads_of


def scenario_s3(spec, types):
    """Concurrent registration: spec {'datasets': n, 'threads': [[ [ds idx, alias, how], ...], ...]}"""
    dss = []
    for j in range(spec["datasets"]):
        def body(x=Option("X", 0), _j=j):
            return ("default", _j, x)
        body.__name__ = f"s3_{j}"
        # (not cached: an evaluation that overlaps the registrations must not pin the default for the final check)
        dss.append(dataset.nocache(dispatch="K")(body))

    def make(i, ops):
        def program():
            for d, alias, how in ops:
                ds = dss[d % len(dss)]
                tag = ("impl", i, alias)
                if how == "eval":
                    # an evaluation overlapping the other threads' registrations (its own result may be the default or any
                    # implementation registered so far)
                    ds({"K": alias})
                    continue
                if how == "register":
                    ds.register(alias, Value(tag))
                else:
                    def impl(_t=tag):
                        return _t
                    impl.__name__ = f"impl_{i}_{alias}"
                    ds.overload(alias)(impl)
            return "done"
        return program

    programs = [make(i, ops) for i, ops in enumerate(spec["threads"])]

    def verify(results, sched):
        for i, (kind, val) in enumerate(results):
            if kind != "ok":
                return f"thread {i} raised {val!r}"
        want = {}
        for i, ops in enumerate(spec["threads"]):
            for d, alias, how in ops:
                if how != "eval":
                    want.setdefault((d % len(dss), alias), []).append(("impl", i, alias))
        for (d, alias), tags in want.items():
            ds = dss[d]
            if alias not in ds.overloads.lookup:
                return f"alias {alias!r} registered on dataset {d} is missing afterwards (lookup has {sorted(map(str, ds.overloads.lookup))})"
            got = ds({"K": alias})
            if got not in tags:
                return f"dataset {d} under dispatch {alias!r} evaluates to {got!r}, expected one of {tags}"
        return None

    return programs, verify, {}


def scenario_s4(spec, types):
    """Concurrent evaluation of shared cached datasets: spec {'threads': [[A value, ...], ...]}"""
    log = []

    @dataset
    def base(a=Option("A"), b=Option("B", 0)):
        log.append(("base", a))
        return ("base", a, b)

    @dataset
    def top(x=base, c=Option("C", 0)):
        log.append(("top", x))
        return ("top", x, c)

    def make(i, vals):
        def program():
            out = []
            for v in vals:
                o = {"A": v} if v % 2 else {"A": v, "C": 0, "Z": i}
                out.append((v, top(o)))
            return out
        return program

    programs = [make(i, vals) for i, vals in enumerate(spec["threads"])]

    def verify(results, sched):
        for i, (kind, val) in enumerate(results):
            if kind != "ok":
                return f"thread {i} raised {val!r}"
            for v, got in val:
                exp = ("top", ("base", v, 0), 0)
                if got != exp:
                    return f"thread {i} evaluated with A={v} and got {got!r}, expected {exp!r}"
        return None

    return programs, verify, {}


SCENARIOS = {"S1": scenario_s1, "S2": scenario_s1, "S3": scenario_s3, "S4": scenario_s4}


def execute(case):
    """Run the case under the scheduler. Returns (violation message or None, steps, preemptions taken)."""
    before = set(getattr(runtime, "_DEFAULT_HANDLERS", {}))
    sched = Scheduler(TRACED[case["scenario"]])
    undo = patch_locks(sched)
    try:
        types = _types()
        programs, verify, threads_of = SCENARIOS[case["scenario"]](case["spec"], types)
        schedule = {int(k): int(j) for k, j in case["schedule"]}
        # S2 needs the Thread objects: the scheduler creates them; give the scenario access lazily
        _CUR["sched"] = sched
        try:
            results, steps = sched.run(programs, schedule)
        except Deadlock as e:
            return f"deadlock / runaway under schedule {case['schedule']}: {e}", sched.step, sched.preemptions_taken
        msg = verify(results, sched)
        return msg, steps, sched.preemptions_taken
    finally:
        undo()
        _cleanup(before)
        threads = getattr(runtime, "_RUNTIMES", None)
        if isinstance(threads, dict):
            for t in sched.threads:
                threads.pop(t, None)


def _well_formed(case):
    """Cases cut down by the reducer may no longer be programs; those are not run."""
    sc, spec = case.get("scenario"), case.get("spec")
    if sc not in SCENARIOS or not isinstance(spec, dict) or not isinstance(spec.get("threads"), list) or not spec["threads"]:
        return False
    if not all(isinstance(t, list) for t in spec["threads"]):
        return False
    if sc == "S3":
        return isinstance(spec.get("datasets"), int) and spec["datasets"] >= 1 and all(
            isinstance(op, list) and len(op) == 3 and isinstance(op[0], int) and op[2] in ("register", "overload", "eval") for t in spec["threads"] for op in t)
    if sc == "S4":
        return all(isinstance(v, int) for t in spec["threads"] for v in t)
    if not isinstance(spec.get("pool"), list) or not spec["pool"] or not all(
            isinstance(ov, list) and all(isinstance(p, list) and len(p) == 2 for p in ov) for ov in spec["pool"]):
        return False
    for t in spec["threads"]:
        for op in t:
            if not (isinstance(op, list) and op and ((op[0] in ("exit", "touch") and len(op) == 1) or
                                                     (op[0] in ("enter", "run", "inherit") and len(op) == 2 and isinstance(op[1], int)))):
                return False
            if op[0] == "inherit" and not 0 <= op[1] < len(spec["threads"]):
                return False
    return all(isinstance(s, list) and len(s) == 2 for s in case.get("schedule", []))


def check(case, ctx):
    if not _well_formed(case):
        ctx.done(case, False, ["malformed (reducer artefact)"])
        return
    msg, steps, taken = execute(case)
    if msg:
        raise Violation("thread-" + case["scenario"], f"schedule={case['schedule']} spec={case['spec']}: {msg}")
    ctx.done(case, taken >= 1, [case["scenario"], f"preemptions={taken}", f"threads={len(case['spec']['threads'])}"])


# ---- fixed family for systematic exploration -----------------------------------------------------------------------
FAMILY = [
    {"scenario": "S1", "spec": {"pool": [[[0, 0]], [[0, 1], [1, 1]]],
                                "threads": [[["enter", 0], ["run", 0], ["exit"], ["run", 0]],
                                            [["run", 0], ["enter", 0], ["run", 0], ["exit"], ["run", 1]]]}},
    {"scenario": "S1", "spec": {"pool": [[[0, 0]], [[0, 1]]],
                                "threads": [[["touch"], ["enter", 0], ["enter", 1], ["run", 0], ["exit"], ["run", 0], ["exit"], ["run", 0]],
                                            [["enter", 1], ["run", 0], ["exit"], ["run", 0]]]}},
    {"scenario": "S2", "spec": {"pool": [[[0, 0]], [[1, 2]]],
                                "threads": [[["touch"], ["enter", 0], ["run", 0], ["exit"], ["run", 0]],
                                            [["inherit", 0], ["run", 0], ["run", 1]]]}},
    {"scenario": "S3", "spec": {"datasets": 1, "threads": [[[0, "a", "register"], [0, "b", "overload"]], [[0, "c", "register"], [0, "d", "register"]]]}},
    {"scenario": "S3", "spec": {"datasets": 2, "threads": [[[0, "a", "overload"]], [[0, "b", "register"]], [[1, "c", "register"], [0, "d", "register"]]]}},
    {"scenario": "S3", "spec": {"datasets": 1, "threads": [[[0, "a", "eval"], [0, "a", "eval"]], [[0, "a", "register"], [0, "b", "register"]]]}},
    {"scenario": "S4", "spec": {"threads": [[1, 2], [2, 1]]}},
    {"scenario": "S4", "spec": {"threads": [[1], [3], [1]]}},
]


def enum_systematic(ctx):
    maxp = 2
    k = 0
    total = 0
    for fi, base in enumerate(FAMILY):
        n = len(base["spec"]["threads"])
        _, steps, _ = execute({**base, "schedule": []})
        horizon = steps + 30
        scheds = [[]]
        for p in range(1, maxp + 1):
            # one preemption: every yield point; two preemptions: every pair in the thorough tier when the run is short,
            # otherwise pairs on a stride whose offset follows VERIF_SEED (so that different seeds cover different pairs)
            # (handler-block scenarios get a finer grid in the quick tier: the windows in which a second preemption matters
            # there - between one thread's enter and exit of a shared runtime object - are only a few yield points wide)
            fine = 48 if base["scenario"] in ("S1", "S2") else 22
            stride = 1 if p == 1 else max(1, horizon // (90 if ctx.tier == "thorough" else fine))
            offset = ctx.seed % stride
            for pts in itertools.combinations(range(offset, horizon, stride), p):
                for targets in itertools.product(range(n), repeat=p):
                    scheds.append([[a, b] for a, b in zip(pts, targets)])
        for s in scheds:
            k += 1
            if k % ctx.nshards != ctx.shard:
                continue
            total += 1
            yield {**base, "schedule": s, "family": fi}
    ctx.exhaustive[f"schedules-with<={maxp}-preemptions-on-fixed-family"] = total


# ---- random programs and schedules ---------------------------------------------------------------------------------------
@st.composite
def random_cases(draw):
    scenario = draw(st.sampled_from(["S1", "S1", "S2", "S3", "S4"]))
    nthreads = draw(st.integers(2, 3))
    if scenario in ("S1", "S2"):
        pool = [draw(st.lists(st.tuples(st.integers(0, 1), st.integers(0, 3)).map(list), max_size=2)) for _ in range(draw(st.integers(1, 3)))]
        threads = []
        for i in range(nthreads):
            ops = []
            depth = 0
            if scenario == "S2" and i > 0:
                ops.append(["inherit", 0])
                for _ in range(draw(st.integers(1, 3))):
                    ops.append(["run", draw(st.integers(0, 1))])
                threads.append(ops)
                continue
            for _ in range(draw(st.integers(2, 7))):
                kind = draw(st.sampled_from(["enter", "exit", "run", "run", "touch"]))
                if kind == "enter":
                    ops.append(["enter", draw(st.integers(0, 2))])
                    depth += 1
                elif kind == "exit":
                    if depth:
                        ops.append(["exit"])
                        depth -= 1
                elif kind == "run":
                    ops.append(["run", draw(st.integers(0, 1))])
                else:
                    ops.append(["touch"])
            ops += [["exit"]] * depth
            ops.append(["run", draw(st.integers(0, 1))])
            threads.append(ops)
        spec = {"pool": pool, "threads": threads}
    elif scenario == "S3":
        spec = {"datasets": draw(st.integers(1, 2)),
                "threads": [[[draw(st.integers(0, 1)), f"a{i}_{j}" if draw(st.integers(0, 3)) else "a0_0", draw(st.sampled_from(["register", "overload", "eval"]))]
                             for j in range(draw(st.integers(1, 3)))] for i in range(nthreads)]}
    else:
        spec = {"threads": [draw(st.lists(st.integers(1, 4), min_size=1, max_size=3)) for _ in range(nthreads)]}
    schedule = draw(st.lists(st.tuples(st.integers(0, 400), st.integers(0, nthreads - 1)).map(list), max_size=6, unique_by=lambda x: x[0]))
    return {"scenario": scenario, "spec": spec, "schedule": sorted(schedule)}


# ---- thread lifetimes: short-lived and pooled workers, one after the other (no scheduler: every step is sequential) ----------
def check_lifetimes(case, ctx):
    """main runs a program; 'spawn' steps start a thread, run its program to completion and join it (so the next spawn
    usually gets the same thread identifier); 'task' steps hand a program to a long-lived pool worker. Oracle: a
    per-thread model (what a thread is served by depends on its own blocks and on its own latest inherit() only)."""
    import queue

    def well_formed(ops):
        return isinstance(ops, list) and all(isinstance(op, list) and op and (
            (op[0] in ("exit", "touch", "inherit") and len(op) == 1) or (op[0] in ("enter", "run", "run_nocache", "run_nolog") and len(op) == 2 and isinstance(op[1], int))) for op in ops)
    if not (isinstance(case["pool"], list) and case["pool"] and all(isinstance(ov, list) and all(isinstance(p, list) and len(p) == 2 for p in ov) for ov in case["pool"])):
        ctx.done(case, False, ["malformed (reducer artefact)"])
        return
    for step in case["main"]:
        ok = isinstance(step, list) and step and (well_formed([step]) or (step[0] == "spawn" and len(step) == 2 and well_formed(step[1]))
                                                   or (step[0] == "task" and len(step) == 3 and isinstance(step[1], int) and well_formed(step[2])))
        if not ok or step[0] == "inherit":
            ctx.done(case, False, ["malformed (reducer artefact)"])
            return
    before = set(getattr(runtime, "_DEFAULT_HANDLERS", {}))
    table = getattr(runtime, "_RUNTIMES", None)
    table_before = dict(table) if isinstance(table, dict) else None
    types = _types()
    handlers = {j: (lambda tag: (lambda req: tag))(("h", j)) for j in range(4)}
    pool = [(Runtime().handle({types[t % 2]: handlers[h % 4] for t, h in ov}) if ov else Runtime(), {t % 2: ("h", h % 4) for t, h in ov})
            for ov in case["pool"]]
    main_thread = threading.current_thread()
    main_model = {"base": {}, "stack": []}
    labels = set()
    problems = []

    def current(model):
        return model["stack"][-1] if model["stack"] else model["base"]

    def run_ops(ops, model, entered, who):
        for k, op in enumerate(ops):
            if op[0] == "enter":
                obj, over = pool[op[1] % len(pool)]
                obj.__enter__()
                entered.append(obj)
                model["stack"].append(over)
            elif op[0] == "exit":
                if entered:
                    entered.pop().__exit__(None, None, None)
                    model["stack"].pop()
            elif op[0] == "touch":
                runtime.current_runtime()
            elif op[0] == "inherit":
                if not model["stack"]:
                    runtime.inherit(main_thread)
                    model["base"] = dict(current(main_model))
                    model["inherited"] = True
            elif op[0] in ("run", "run_nocache", "run_nolog"):
                ti = op[1] % 2
                try:
                    if op[0] == "run":
                        got = types[ti]().run()
                    else:
                        # labrea's own context managers derive from the thread's current runtime: the thread's handlers
                        # still serve its requests inside them
                        with (labrea.cache.disabled() if op[0] == "run_nocache" else labrea.logging.disabled()):
                            got = types[ti]().run()
                        labels.add("inside-" + op[0][4:] + "-disabled-block")
                except Exception as e:  # noqa
                    got = ("raised", type(e).__name__, str(e)[:60])
                exp = current(model).get(ti, ("default", ti))
                if got != exp:
                    problems.append(f"{who} op {k} {op}: request T{ti} served by {got!r} but the thread's own blocks / latest inherit() say {exp!r}")

    workers = {}

    def worker_loop(q, done, model):
        entered = []
        while True:
            ops = q.get()
            if ops is None:
                return
            try:
                run_ops(ops, model, entered, f"pool worker task {ops}")
                while entered:
                    entered.pop().__exit__(None, None, None)
                    model["stack"].pop()
            except Exception as e:  # noqa
                problems.append(f"pool worker raised {e!r}")
            done.put(1)

    entered_main = []
    created = []
    try:
        for step_i, step in enumerate(case["main"]):
            if step[0] in ("enter", "exit", "run", "run_nocache", "run_nolog", "touch"):
                run_ops([step], main_model, entered_main, "main")
            elif step[0] == "spawn":
                model = {"base": {}, "stack": []}
                err = []

                def prog(ops=step[1], model=model):
                    entered = []
                    try:
                        run_ops(ops, model, entered, f"short-lived thread #{step_i} {ops}")
                        if not case.get("leave_open"):
                            while entered:
                                entered.pop().__exit__(None, None, None)
                    except Exception as e:  # noqa
                        err.append(repr(e))
                t = threading.Thread(target=prog)
                t.start()
                t.join()
                created.append(t)
                labels.add("short-lived-thread")
                if len(created) > 1 and any(c.ident == t.ident for c in created[:-1]):
                    labels.add("thread-identifier-recycled")
                if model.get("inherited"):
                    labels.add("inherit")
                if err:
                    problems.append(f"short-lived thread raised {err[0]}")
            elif step[0] == "task":
                wid = step[1] % 2
                if wid not in workers:
                    q, done, model = queue.Queue(), queue.Queue(), {"base": {}, "stack": []}
                    t = threading.Thread(target=worker_loop, args=(q, done, model), daemon=True)
                    t.start()
                    created.append(t)
                    workers[wid] = (q, done, model, t, [0])
                q, done, model, t, n = workers[wid]
                q.put(step[2])
                done.get(timeout=30)
                n[0] += 1
                if n[0] >= 2:
                    labels.add("pool-worker-reused")
                if model.get("inherited"):
                    labels.add("inherit")
            if problems:
                break
    finally:
        while entered_main:
            entered_main.pop().__exit__(None, None, None)
        for q, done, model, t, n in workers.values():
            q.put(None)
            t.join(timeout=30)
        _cleanup(before)
        if table_before is not None:
            for k in list(table):
                if k not in table_before:
                    table.pop(k, None)
    if problems:
        raise Violation("thread-lifetimes", f"pool={case['pool']} main={case['main']}: {problems[0]}")
    ctx.done(case, bool(labels & {"thread-identifier-recycled", "pool-worker-reused"}) and "inherit" in labels, labels)


@st.composite
def lifetime_cases(draw):
    pool = [draw(st.lists(st.tuples(st.integers(0, 1), st.integers(0, 3)).map(list), min_size=1, max_size=2)) for _ in range(draw(st.integers(1, 3)))]

    def worker_ops():
        ops, depth = [], 0
        if draw(st.integers(0, 2)) > 0:
            ops.append(["inherit"])
        for _ in range(draw(st.integers(1, 4))):
            kind = draw(st.sampled_from(["enter", "exit", "run", "run", "touch", "run_nocache", "run_nolog"]))
            if kind == "enter":
                ops.append(["enter", draw(st.integers(0, 2))]); depth += 1
            elif kind == "exit":
                if depth:
                    ops.append(["exit"]); depth -= 1
            elif kind.startswith("run"):
                ops.append([kind, draw(st.integers(0, 1))])
            else:
                ops.append(["touch"])
        ops.append(["run", draw(st.integers(0, 1))])
        return ops
    main, depth = [], 0
    for _ in range(draw(st.integers(3, 9))):
        kind = draw(st.sampled_from(["enter", "enter", "exit", "run", "run_nocache", "run_nolog", "spawn", "spawn", "task", "task"]))
        if kind == "enter":
            main.append(["enter", draw(st.integers(0, 2))]); depth += 1
        elif kind == "exit":
            if depth:
                main.append(["exit"]); depth -= 1
        elif kind.startswith("run"):
            main.append([kind, draw(st.integers(0, 1))])
        elif kind == "spawn":
            main.append(["spawn", worker_ops()])
        else:
            main.append(["task", draw(st.integers(0, 1)), worker_ops()])
    main += [["exit"]] * depth
    main.append(["spawn", [["run", 0], ["run", 1]]])
    return {"pool": pool, "main": main, "leave_open": False}


NPROC = {"quick": 8, "thorough": 16}
WALL_CAP = {"quick": 90, "thorough": 1200}
PARTS = [
    Part("lifetimes", check_lifetimes, strategy=lambda ctx: lifetime_cases(), budget={"quick": 300, "thorough": 2000}),
    Part("systematic", check, enumerate=enum_systematic, budget={"quick": None, "thorough": None}),
    Part("random", check, strategy=lambda ctx: random_cases(), budget={"quick": 400, "thorough": 2500}),
]
