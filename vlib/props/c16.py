"""C16 — feature switches change side behaviour only, never values."""
from __future__ import annotations

import contextlib
import copy
import itertools
import logging

import labrea.cache
import labrea.logging
from hypothesis import strategies as st
from labrea import runtime
from labrea.cache import CacheSetRequest

from .. import sem, specgen, universe as U
from ..build import _DS_NAME, build, run
from ..harness import Part, Violation, canon
from ..ref import Ref

PID = "C16"
LEVEL = "exploration"
RULE = ("a history on ONE long-lived build; every step draws one element of the full cross product cache {on, "
        "LABREA.CACHE.DISABLED, LABREA.CACHE.DISABLE, cache.disabled() context} x effects {on, LABREA.EFFECTS.DISABLED, "
        "per-dataset disable_effects()} x logging {on, LABREA.LOGGING.DISABLED, logging.disabled() context} (nocache is a "
        "static attribute of generated datasets). Checked per step: the value equals the reference value for the plain "
        "dictionary; caching off => every body the reference needs runs again (stored entries not read) and, while "
        "nothing has been stored yet, a following cache-on step still computes (nothing written); effects off => no "
        "effect call (of the toggled datasets / of any dataset); logging off => no record reaches a capturing "
        "logging.Handler, logging on => records are INFO and, for steps without absorbed failures, their number per "
        "dataset equals the number of cache-store requests of that dataset (= computed evaluations). part "
        "'cross-product' enumerates all 36 combinations x {cold, warm} on a fixed family of graphs (exhaustive for that "
        "family); part 'histories' draws random programs and random combination sequences. Epilogue of a third of the "
        "histories (and of every context-manager combination of the cross product): a lazy Iter result over the root is "
        "obtained and partly consumed inside cache.disabled() / logging.disabled() and drained after the block; every item "
        "has the switches-off value and two following switches-off evaluations cache and log normally; and of another third: a "
        "dataset that has been in use is switched to NoCache through set_cache() (instance or class form) and must from "
        "then on recompute and log once per evaluation. part 'interface-members': an @interface member supplied as a ready-made "
        "dataset (with or without its own dispatch, nocache by factory / set_cache or cached) evaluated under a sequence of "
        "switch combinations: value, body runs, effect calls and INFO records per step as for a dataset outside an "
        "interface. Non-trivial = the history "
        "uses >=3 distinct combinations incl. a cache-off step on a graph that reaches a cacheable dataset; distinct = "
        "distinct (spec, history) hash.")
ASSUMPTIONS = [
    "AllOptions excluded (its value is the dictionary, switches included)",
    "effects and bodies total (effects cannot fail, so disabling them cannot change success)",
    "a dataset's log message is the only handle a LogRequest offers to identify it",
]
EXHAUSTIVE_ALL = False

CACHE = ["on", "opt-DISABLED", "opt-DISABLE", "ctx"]
EFFECTS = ["on", "opt", "toggle"]
LOGGING = ["on", "opt", "ctx"]
COMBOS = list(itertools.product(CACHE, EFFECTS, LOGGING))


class _Capture(logging.Handler):
    def __init__(self):
        super().__init__(level=logging.DEBUG)
        self.records = []

    def emit(self, record):
        self.records.append((record.levelno, record.getMessage()))


def ds_of_msg(msg):
    m = _DS_NAME.search(msg)
    return m.group(1).split(".")[-1] if m else "?"


def step(G, spec, o, combo, owner_of_effect):
    """Evaluate G.root under `combo`; returns (outcome, bodies, effects, log records, set-requests per dataset)."""
    cache, effects, log = combo
    opts = copy.deepcopy(o)
    lab = {}
    if cache == "opt-DISABLED":
        lab.setdefault("CACHE", {})["DISABLED"] = True
    elif cache == "opt-DISABLE":
        lab.setdefault("CACHE", {})["DISABLE"] = True
    if effects == "opt":
        lab.setdefault("EFFECTS", {})["DISABLED"] = True
    if log == "opt":
        lab.setdefault("LOGGING", {})["DISABLED"] = True
    if lab:
        opts["LABREA"] = lab
    toggled = []
    if effects == "toggle":
        for name, d in list(G.ds.items()) + G.derived:
            if d.effects:
                d.disable_effects()
                toggled.append(name)
    cap = _Capture()
    root_logger = logging.getLogger()
    old_level = root_logger.level
    root_logger.addHandler(cap)
    root_logger.setLevel(logging.INFO)
    sets = []
    mark = len(G.log)
    try:
        with contextlib.ExitStack() as stack:
            if cache == "ctx":
                stack.enter_context(labrea.cache.disabled())
            if log == "ctx":
                stack.enter_context(labrea.logging.disabled())
            outer = runtime.current_runtime()

            def rec(request):
                sets.append(ds_of_msg(getattr(request.evaluatable, "msg", "")))
                return outer.run(request)

            stack.enter_context(runtime.handle(CacheSetRequest, rec))
            out = run(G.root.evaluate, opts)
    finally:
        root_logger.removeHandler(cap)
        root_logger.setLevel(old_level)
        for name, d in list(G.ds.items()) + G.derived:
            d.enable_effects()
    events = G.log[mark:]
    return out, [e[1] for e in events if e[0] == "body"], [e for e in events if e[0] == "effect"], cap.records, sets, toggled


def check(case, ctx):
    # effects are total here (see ASSUMPTIONS): an effect whose option is missing fails with effects on and cannot fail
    # with effects off, which is a difference in success the property does not speak about
    spec = specgen.normalise(case["spec"], {"no-effect-option-params"})
    spec = specgen.normalise(spec, ctx.flags | {"no-allopts"}, ctx)
    ref = Ref(spec)
    G = build(spec)
    if "no-coalesce-value-failure" in ctx.flags:
        if any("absorbed-under-cache" in ref.run(o).labels for o, _ in case["steps"]):
            ctx.exclude("no-coalesce-value-failure")
            ctx.done(case, False, ["excluded-K6"])
            return
    cacheable = {d["name"] for d in spec["defs"] if not d.get("nocache")}
    owner = {}
    for d in spec["defs"]:
        for e in d.get("effects", []):
            owner[e["name"]] = d["name"]
    labels = set()
    anything_stored = False
    combos_used = set()
    reached_cacheable = False
    for i, (o, combo) in enumerate(case["steps"]):
        combo = tuple(combo)
        cache, effects, log = combo
        r = ref.run(o)
        out, bodies, effs, records, sets, toggled = step(G, spec, o, combo, owner)
        where = f"step {i} combo={combo} options={o}"
        if out.ok != r.ok or (r.ok and out.value != r.value):
            raise Violation("value-changed-by-switch", f"{where}: got {out!r} but with all switches off the value is {r!r}")
        combos_used.add(combo)
        labels.add(f"cache={cache}")
        labels.add(f"effects={effects}")
        labels.add(f"logging={log}")
        ran = set(bodies)
        if r.ok:
            if r.must & cacheable:
                reached_cacheable = True
            if cache != "on":
                missing = r.must - ran
                if missing:
                    raise Violation("cache-read-while-disabled", f"{where}: bodies {sorted(missing)} did not run although caching is disabled")
            else:
                if not anything_stored:
                    missing = r.must - ran
                    if missing:
                        raise Violation("cache-written-while-disabled", f"{where}: bodies {sorted(missing)} did not run although every earlier "
                                                                        f"step had caching disabled (nothing may have been stored)")
                    if i > 0:
                        labels.add("on-after-only-off")
        if cache == "on":
            anything_stored = True
        # effects
        if effects == "opt" and effs:
            raise Violation("effect-ran-while-disabled", f"{where}: effects ran: {effs[:3]}")
        if effects == "toggle":
            bad = [e for e in effs if owner.get(e[1]) in toggled]
            if bad:
                raise Violation("effect-ran-while-disabled", f"{where}: effects of datasets with disable_effects() ran: {bad[:3]}")
        # logging
        if log != "on":
            if records:
                raise Violation("log-emitted-while-disabled", f"{where}: {len(records)} records emitted: {records[:2]}")
        else:
            notinfo = [x for x in records if x[0] != logging.INFO]
            if notinfo:
                raise Violation("log-level", f"{where}: non-INFO records {notinfo[:2]}")
            if r.ok and not r.speculated:
                import collections
                a = collections.Counter(ds_of_msg(m) for _, m in records)
                b = collections.Counter(sets)
                a.pop("?", None)
                b.pop("?", None)
                if a != b:
                    raise Violation("log-count", f"{where}: log records per dataset {dict(a)} but computed evaluations (cache-store requests) {dict(b)}")
                if a:
                    labels.add("log-count-checked")
    lazy = case.get("lazy")
    if lazy:
        # a lazily produced result (Iter over the root) obtained and partly consumed inside the context-manager switches
        # and drained after they were left: every item has the all-switches-off value, and the switches end with the block
        o = case["steps"][-1][0]
        r = ref.run(o)
        it = labrea.Iter(*([G.root] * 3))
        items = []

        def pull():
            out = run(next, gen)
            if not out.ok and isinstance(out.exc, StopIteration):
                return False
            items.append(out)
            return out.ok        # (the producer stops at its first failure)
        with contextlib.ExitStack() as stack:
            if "cache" in lazy["ctx"]:
                stack.enter_context(labrea.cache.disabled())
            if "logging" in lazy["ctx"]:
                stack.enter_context(labrea.logging.disabled())
            gen = iter(it.evaluate(copy.deepcopy(o)))
            more = True
            for _ in range(lazy["pull"]):
                more = more and pull()
        while more:
            more = pull()
        for out in items:
            if out.ok != r.ok or (r.ok and out.value != r.value):
                raise Violation("value-changed-by-switch", f"lazy items of Iter(root x3) on {o} pulled {lazy['pull']} inside {lazy['ctx']} and the rest "
                                                           f"after the block: item {out!r} but with all switches off the value is {r!r}")
        labels.add("lazy-result-drained-after-block")
        # the block is over: caching and logging behave as with all switches off again
        first = step(G, spec, o, ("on", "on", "on"), owner)
        second = step(G, spec, o, ("on", "on", "on"), owner)
        if r.ok:
            stable = (r.must - r.spec_bodies) & cacheable
            again = set(second[1]) & stable
            if again:
                raise Violation("switch-outlives-block", f"after a lazy result was obtained inside {lazy['ctx']} (pulled {lazy['pull']} inside) and drained "
                                                         f"outside, two evaluations on {o} with all switches off: the second ran {sorted(again)} again (caching still off)")
            import collections
            for nm, (out, bodies, effs, records, sets, toggled) in (("first", first), ("second", second)):
                a = collections.Counter(ds_of_msg(m) for _, m in records)
                b = collections.Counter(sets)
                a.pop("?", None)
                b.pop("?", None)
                if not r.speculated and a != b:
                    raise Violation("switch-outlives-block", f"after a lazy result was obtained inside {lazy['ctx']} and drained outside, {nm} evaluation on {o} "
                                                             f"with all switches off: log records {dict(a)} but computed evaluations {dict(b)}")
    late = case.get("late_nocache")
    derived_from = set()
    specgen.walk(spec, lambda n: derived_from.add(n["base"]) if n["k"] == "derived" else None)
    # (copies derived from a dataset earlier keep their own cache and share its name in the logs: such datasets are not chosen)
    cands = [d["name"] for d in spec["defs"] if not d.get("nocache") and d["name"] not in derived_from]
    if late and cands:
        # a dataset that has been in use is switched to no caching through the public set_cache(): from then on each of its
        # evaluations recomputes and logs once
        from labrea.cache import NoCache
        name = cands[late["ds"] % len(cands)]
        o = case["steps"][-1][0]
        live = G.ds[name]
        if late.get("touch"):
            run(getattr(live, late["touch"]), copy.deepcopy(o))
        live.set_cache(NoCache() if late["form"] == "instance" else NoCache)
        sub = dict(spec, root={"k": "ref", "name": name})
        r = Ref(sub).run(o)
        old_root, G.root = G.root, live
        try:
            outs = [step(G, spec, o, ("on", "on", "on"), owner) for _ in range(2)]
        finally:
            G.root = old_root
        for n_eval, (out, bodies, effs, records, sets, toggled) in enumerate(outs):
            if out.ok != r.ok or (r.ok and out.value != r.value):
                raise Violation("value-changed-by-switch", f"{name} after set_cache(NoCache) on {o}: {out!r}, expected {r!r}")
            if r.ok and name not in bodies and name in r.must:
                raise Violation("cache-read-while-disabled", f"{name} was used, then switched to NoCache with set_cache ({late}); evaluation #{n_eval + 1} on {o} "
                                                             f"did not run its body (an entry of the replaced cache was served)")
            if r.ok and name in r.must and not r.speculated:
                # (a derived copy carries its parent's name: records are compared with computed evaluations, as above)
                n_rec = sum(1 for _, m in records if ds_of_msg(m) == name)
                if n_rec != sets.count(name) or n_rec < 1:
                    raise Violation("log-count", f"{name} after set_cache(NoCache): evaluation #{n_eval + 1} on {o}: {sets.count(name)} computed evaluations but {n_rec} log records")
        labels.add("set_cache(NoCache)-after-use")
    nontrivial = len(combos_used) >= 3 and any(c[0] != "on" for c in combos_used) and reached_cacheable
    ctx.done(case, nontrivial, labels)


@st.composite
def cases(draw, prof, maxlen):
    spec = draw(specgen.specs(prof))
    hist = draw(U.histories(min_len=3, max_len=maxlen, p_present=draw(st.sampled_from([0.8, 0.95])), allow_unmentioned=False))
    start_off = draw(st.booleans())
    steps = []
    for i, o in enumerate(hist):
        combo = list(draw(st.sampled_from(COMBOS)))
        if start_off and i < 2:
            combo[0] = draw(st.sampled_from(CACHE[1:]))
        steps.append([o, combo])
    case = {"spec": spec, "steps": steps}
    if draw(st.integers(0, 2)) == 0:
        case["late_nocache"] = {"ds": draw(st.integers(0, 5)), "form": draw(st.sampled_from(["instance", "class"])),
                                "touch": draw(st.sampled_from([None, "validate", "keys", "explain", "evaluate"]))}
    if draw(st.integers(0, 2)) == 0:
        case["lazy"] = {"ctx": draw(st.sampled_from([["cache"], ["logging"], ["cache", "logging"]])), "pull": draw(st.integers(0, 3))}
    return case


# ---- fixed family for the exhaustive cross product ---------------------------------------------------------------
def _family():
    opt = lambda k, **kw: dict({"k": "opt", "key": k}, **kw)
    ref = lambda n: {"k": "ref", "name": n}
    base = {"name": "d0", "body": "tag", "params": [opt("A")], "form": "decorator", "effects": [{"name": "e0", "kind": "fn"}]}
    fam = []
    fam.append({"defs": [base], "root": ref("d0")})
    fam.append({"defs": [base, {"name": "d1", "body": "tag", "params": [ref("d0"), opt("B", default={"t": "const", "v": 1})], "form": "explicit",
                                "effects": [{"name": "e1", "kind": "step"}], "callback": [{"name": "cb1"}]}],
                "root": {"k": "tuple", "items": [ref("d1"), ref("d0")]}})
    fam.append({"defs": [base, {"name": "d1", "body": "tag", "params": [ref("d0")], "form": "where", "nocache": True,
                                "effects": [{"name": "e1", "kind": "cls"}]},
                         {"name": "d2", "body": "tag", "params": [ref("d1")], "form": "decorator", "dispatch": "K",
                          "overloads": [[1, ref("d0")]], "options": {"S": {"X": 1}}}],
                "root": {"k": "list", "items": [ref("d2"), {"k": "derived", "base": "d0", "op": "with_options", "opts": {"A": 7}}]}})
    return fam


def enum_cross(ctx):
    fam = _family()
    dicts = [{"A": 1, "K": 1}, {"A": 2}]
    k = 0
    for fi, spec in enumerate(fam):
        for combo in COMBOS:
            for warm in (False, True):
                k += 1
                if k % ctx.nshards != ctx.shard:
                    continue
                steps = []
                if warm:
                    steps.append([dicts[0], ["on", "on", "on"]])
                steps.append([dicts[0], list(combo)])
                steps.append([dicts[1], list(combo)])
                steps.append([dicts[0], ["on", "on", "on"]])
                case = {"spec": spec, "steps": steps, "family": fi}
                if combo[0] == "ctx" or combo[2] == "ctx":
                    case["lazy"] = {"ctx": (["cache"] if combo[0] == "ctx" else []) + (["logging"] if combo[2] == "ctx" else []), "pull": 1 + (k % 2)}
                yield case
    ctx.exhaustive["switch-cross-product-on-fixed-family"] = ctx.exhaustive.get("switch-cross-product-on-fixed-family", 0) + k // ctx.nshards


# ---- interface members that are ready-made datasets -------------------------------------------------------------------
def check_interface_member(case, ctx):
    """An @interface member supplied as a dataset of its own (own dispatch, effect, possibly nocache): the switches and
    the log count apply to it exactly as to a dataset outside an interface."""
    from labrea import Option, dataset, interface
    from labrea.cache import NoCache
    log = []

    def eff(value):
        log.append(("effect", value))

    def member(a=Option("A", 0)):
        log.append(("body",))
        return ("m", a)
    member.__name__ = "member"
    factory = dataset.nocache if case["nocache"] == "factory" else dataset
    kw = {"effects": [eff]}
    if case["own_dispatch"]:
        kw["dispatch"] = "K2"
    m = factory(**kw)(member)
    iface = interface("K")(type("Iface", (), {"member": m}))
    live = iface.member
    if case["nocache"] == "set_cache":
        live.set_cache(NoCache())
    cached_member = case["nocache"] == "none"
    stored = set()
    labels = {"nocache=" + case["nocache"], f"own-dispatch={case['own_dispatch']}"}
    for i, (a, combo) in enumerate(case["steps"]):
        cache, effects, logsw = combo
        o = {"A": a}
        lab = {}
        if cache == "opt-DISABLED":
            lab.setdefault("CACHE", {})["DISABLED"] = True
        elif cache == "opt-DISABLE":
            lab.setdefault("CACHE", {})["DISABLE"] = True
        if effects == "opt":
            lab.setdefault("EFFECTS", {})["DISABLED"] = True
        if logsw == "opt":
            lab.setdefault("LOGGING", {})["DISABLED"] = True
        if lab:
            o["LABREA"] = lab
        if effects == "toggle":
            live.disable_effects()
        cap = _Capture()
        root_logger = logging.getLogger()
        old_level = root_logger.level
        root_logger.addHandler(cap)
        root_logger.setLevel(logging.INFO)
        mark = len(log)
        try:
            with contextlib.ExitStack() as stack:
                if cache == "ctx":
                    stack.enter_context(labrea.cache.disabled())
                if logsw == "ctx":
                    stack.enter_context(labrea.logging.disabled())
                out = run(live.evaluate, o)
        finally:
            root_logger.removeHandler(cap)
            root_logger.setLevel(old_level)
            live.enable_effects()
        where = f"step {i} A={a} combo={combo} (interface member: nocache={case['nocache']}, own dispatch={case['own_dispatch']})"
        if not out.ok or out.value != sem.typed(("m", a)):
            raise Violation("value-changed-by-switch", f"{where}: got {out!r}, expected {sem.typed(('m', a))}")
        events = log[mark:]
        n_body = sum(1 for e in events if e[0] == "body")
        n_eff = sum(1 for e in events if e[0] == "effect")
        records = [r for r in cap.records if "member" in r[1]]
        must_compute = not cached_member or cache != "on" or a not in stored
        if must_compute and n_body != 1:
            raise Violation("cache-read-while-disabled", f"{where}: the body ran {n_body}x, expected 1 (no usable stored entry)")
        if not must_compute and n_body != 0:
            raise Violation("body-rerun-on-repeat", f"{where}: the body ran {n_body}x although the value was stored with caching on")
        if cached_member and cache == "on":
            stored.add(a)
        want_eff = n_body if effects == "on" else 0
        if n_eff != want_eff:
            raise Violation("effect-ran-while-disabled" if n_eff > want_eff else "effect-count", f"{where}: {n_eff} effect calls for {n_body} computed evaluations (effects {effects})")
        want_rec = n_body if logsw == "on" else 0
        if len(records) != want_rec or any(r[0] != logging.INFO for r in records):
            raise Violation("log-emitted-while-disabled" if len(records) > want_rec else "log-count",
                            f"{where}: {len(records)} log records {records[:3]} for {n_body} computed evaluations (logging {logsw})")
    ctx.done(case, len({tuple(c) for _, c in case["steps"]}) >= 2, labels)


@st.composite
def interface_member_cases(draw):
    return {"nocache": draw(st.sampled_from(["none", "none", "factory", "set_cache"])), "own_dispatch": draw(st.booleans()),
            "steps": [[draw(st.sampled_from([1, 2])), list(draw(st.sampled_from(COMBOS)))] for _ in range(draw(st.integers(2, 5)))]}


PROFILE = specgen.profile(depth=2, domain_rate=0.01, max_defs=5)
PARTS = [
    Part("cross-product", check, enumerate=enum_cross, budget={"quick": None, "thorough": None}),
    Part("histories", check, strategy=lambda ctx: cases(PROFILE, 7 if ctx.tier == "quick" else 14), budget={"quick": 350, "thorough": 1500}),
    Part("interface-members", check_interface_member, strategy=lambda ctx: interface_member_cases(), budget={"quick": 150, "thorough": 800}),
]
