"""C17 — an unreliable cache backend costs recomputation, never a wrong value or failure."""
from __future__ import annotations

import copy
import itertools

from hypothesis import strategies as st
from labrea.cache import Cache, CacheGetFailure

from .. import specgen, universe as U
from ..build import build, run
from ..harness import Part, Violation
from ..ref import Ref
from .c16 import _family

PID = "C17"
LEVEL = "fault_enumeration"
RULE = ("every dataset of the program uses a ScriptedCache(Cache): a contract-abiding backend (returns only what was set for "
        "that fingerprint, or raises CacheGetFailure) whose i-th call (exists/get/set, counted over the whole history) "
        "behaves per a fault script over {behave, miss, lie-exists, fail-get, forget}: miss = report absent / raise "
        "CacheGetFailure, lie-exists = exists() answers True, fail-get = get() raises although stored (also the read-back "
        "right after a set), forget = drop the entry (a set stores nothing). part 'exhaustive-scripts': ALL 5^N scripts "
        "for the first N backend calls (N=5 quick, N=6 thorough; later calls behave) x a fixed family of 3 dataset "
        "graphs x a 4-step history with a repeat; part 'random-scripts': random programs x random histories x random "
        "scripts of length <=40 (a third of them on a backend that inherits exists() from the Cache base class, others on a wrapper backend whose failures name an inner cache object). Every evaluation must return the reference value without raising. Non-trivial = at "
        "least one non-'behave' entry was consumed by a backend call; distinct = distinct (graph, history, script) hash.")
ASSUMPTIONS = [
    "the backend never returns a value other than the one set for that fingerprint (Cache contract)",
    "CacheSetFailure / CacheExistsFailure are not injected (not among the faults the property lists)",
]
EXHAUSTIVE_ALL = False

FAULTS = ["behave", "miss", "lie-exists", "fail-get", "forget"]


class Script:
    def __init__(self, entries):
        self.entries = list(entries)
        self.i = 0
        self.fired = []

    def next(self, call):
        f = self.entries[self.i] if self.i < len(self.entries) else "behave"
        self.i += 1
        if f != "behave":
            self.fired.append((call, f))
        return f


class ScriptedCache(Cache):
    def __init__(self, script, name):
        self.script, self.name = script, name
        self.store = {}

    def get(self, evaluatable, options):
        # the fault is decided before the fingerprint is computed: an unreliable backend may answer without looking
        f = self.script.next("get")
        if f in ("miss", "fail-get"):
            raise CacheGetFailure(evaluatable, options, self)
        key = evaluatable.fingerprint(options)
        if f == "forget":
            self.store.pop(key, None)
            raise CacheGetFailure(evaluatable, options, self)
        if key not in self.store:
            raise CacheGetFailure(evaluatable, options, self)
        return self.store[key]

    def set(self, evaluatable, options, value):
        key = evaluatable.fingerprint(options)
        f = self.script.next("set")
        if f == "forget":
            self.store.pop(key, None)
            return
        self.store[key] = value

    def exists(self, evaluatable, options):
        f = self.script.next("exists")
        if f == "miss":
            return False
        if f == "lie-exists":
            return True
        key = evaluatable.fingerprint(options)
        if f == "forget":
            self.store.pop(key, None)
            return False
        return key in self.store

    def __repr__(self):
        return f"ScriptedCache({self.name})"


class ScriptedTiered(ScriptedCache):
    """A wrapper backend that forwards to an inner store: the failures it lets through name the inner cache object."""

    def __init__(self, script, name):
        super().__init__(script, name)
        self.inner = ScriptedCache(Script([]), name + ".inner")

    def get(self, evaluatable, options):
        try:
            return super().get(evaluatable, options)
        except CacheGetFailure as e:
            raise CacheGetFailure(evaluatable, options, self.inner) from e


class ScriptedCacheInheritedExists(ScriptedCache):
    """A backend that does not implement exists() itself: the Cache base class answers it by trying get()."""
    exists = Cache.exists


def check(case, ctx):
    spec = specgen.normalise(case["spec"], ctx.flags | {"no-allopts"}, ctx)
    ref = Ref(spec)
    script = Script(case["script"])
    backend = ScriptedCacheInheritedExists if case.get("inherited_exists") else ScriptedTiered if case.get("tiered") else ScriptedCache
    G = build(spec, cache_factory=lambda name: backend(script, name))
    if "no-coalesce-value-failure" in ctx.flags and any("absorbed-under-cache" in ref.run(o).labels for o in case["history"]):
        ctx.exclude("no-coalesce-value-failure")
        ctx.done(case, False, ["excluded-K6"])
        return
    labels = set()
    live = {}
    for i, o in enumerate(case["history"]):
        r = ref.run(o)
        fired_before = len(script.fired)
        if case.get("reuse_dict_object"):
            live.clear()
            live.update(copy.deepcopy(o))
            out = run(G.root.evaluate, live)
            labels.add("same-dict-object-edited-in-place")
        else:
            out = run(G.root.evaluate, o)
        where = f"step {i} options={o} script={case['script']} fired={script.fired}"
        if r.ok:
            if not out.ok:
                raise Violation("failed-under-cache-fault", f"{where}: evaluation failed {out.fail} ({out.exc!r}); expected {r.value}")
            if out.value != r.value:
                raise Violation("wrong-value-under-cache-fault", f"{where}: got {out.value} expected {r.value}")
        else:
            if out.ok:
                raise Violation("value-instead-of-failure", f"{where}: got {out.value} but the reference fails {sorted(r.fails)}")
    for call, f in script.fired:
        labels.add(f"fault-fired:{f}@{call}")
    if case.get("inherited_exists"):
        labels.add("backend-inherits-exists")
    elif case.get("tiered"):
        labels.add("backend-forwards-to-inner-cache")
    ctx.done(case, bool(script.fired), labels)


def enum_scripts(ctx):
    n = 5 if ctx.tier == "quick" else 6
    fam = _family()
    for d in [x for s in fam for x in s["defs"]]:
        d.pop("effects", None)
    # a bare cached(...) expression (long-lived Cached object over the scripted backend)
    fam.append({"defs": [{"name": "d0", "body": "tag", "params": [{"k": "opt", "key": "A"}], "form": "decorator", "nocache": True}],
                "root": {"k": "cached", "body": {"k": "tuple", "items": [{"k": "ref", "name": "d0"}, {"k": "opt", "key": "K", "default": {"t": "const", "v": 0}}]}}})
    # a cached dataset as a non-last coalesce member that cannot be evaluated for some dictionaries of the history
    fam[1] = {"defs": [{"name": "d0", "body": "tag", "params": [{"k": "opt", "key": "K"}], "form": "decorator"},
                       {"name": "d1", "body": "tag", "params": [{"k": "ref", "name": "d0"}, {"k": "opt", "key": "A"}], "form": "explicit"}],
              "root": {"k": "coalesce", "members": [{"k": "ref", "name": "d1"}, {"k": "ref", "name": "d0"}, {"k": "val", "v": "fallback"}]}}
    hist = [{"A": 1, "K": 1}, {"A": 2}, {"A": 1, "K": 1}, {"A": 1}]
    k = 0
    for fi, spec in enumerate(fam):
        for script in itertools.product(FAULTS, repeat=n):
            k += 1
            if k % ctx.nshards != ctx.shard:
                continue
            # for the coalesce graph the first dictionary already makes a non-last member fail, so that the enumerated
            # faults hit the validation / recovery calls of that member
            h = [{"A": 2}, {"A": 1, "K": 1}, {"A": 2}, {"K": 3}] if fi == 1 else hist
            yield {"spec": spec, "history": h, "script": list(script), "family": fi, "reuse_dict_object": k % 2 == 0, "tiered": k % 3 == 0}
    ctx.exhaustive[f"all-5^{n}-fault-scripts-x-4-graphs"] = ctx.exhaustive.get(f"all-5^{n}-fault-scripts-x-4-graphs", 0) + k // ctx.nshards


@st.composite
def cases(draw, prof):
    spec = draw(specgen.specs(prof))
    hist = draw(U.histories(min_len=2, max_len=6, p_present=0.9, allow_unmentioned=False))
    script = draw(st.lists(st.sampled_from(FAULTS + ["behave"] * 3), min_size=1, max_size=40))
    return {"spec": spec, "history": hist, "script": script, "reuse_dict_object": draw(st.booleans()),
            "inherited_exists": draw(st.sampled_from([False, False, True])), "tiered": draw(st.sampled_from([False, True]))}


PROFILE = specgen.profile(depth=2, domain_rate=0.01, max_defs=5, effects=False)
PARTS = [
    Part("exhaustive-scripts", check, enumerate=enum_scripts, budget={"quick": None, "thorough": None}),
    Part("random-scripts", check, strategy=lambda ctx: cases(PROFILE), budget={"quick": 300, "thorough": 1500}),
]
