"""C18 — every core operation is an interceptable request; pass-through changes nothing."""
from __future__ import annotations

import collections
import importlib
import inspect
import logging
import pkgutil

import labrea
from hypothesis import strategies as st
from labrea import runtime
from labrea.cache import CacheExistsRequest, CacheGetRequest, CacheSetRequest
from labrea.logging import LogRequest
from labrea.type_validation import TypeValidationRequest
from labrea.types import (Cacheable, EvaluateRequest, Evaluatable, ExplainRequest, Explainable, KeysRequest, Validatable,
                          ValidateRequest)

from .. import sem, specgen, universe as U
from ..build import _DS_NAME, build, run
from ..harness import Part, Violation
from ..ref import Ref

PID = "C18"
LEVEL = "exploration"
RULE = ("part 'reflection' (deterministic): every class defined in the labrea package that implements evaluate / validate / "
        "keys / explain is enumerated by reflection; each must expose the request-issuing wrapper and the saved original, "
        "and for every type with an instance factory (types without one are listed in evidence) each operation on an "
        "instance, run under a recording pass-through handler for the matching request type, must be observed with that "
        "very instance as its subject and return the unhandled result. part 'graphs': generated programs x dictionaries "
        "evaluated (cold, then warm) under recording pass-through handlers for all nine request types: outcome, keys, "
        "validate and explain equal a fresh unhandled build; the root and every dataset the reference needs are subjects "
        "of an EvaluateRequest; every cacheable dataset reached issues exists+set (cold) / exists+get (warm) cache "
        "requests; log requests equal cache-store requests per dataset; type-validation requests are bracketed by the "
        "Option evaluations observed. part 'substitution': a handler that answers one dataset's EvaluateRequest with a "
        "sentinel: the program's value must equal the reference with that dataset overridden. Non-trivial (graphs) = "
        ">=5 nested evaluate requests incl. a dataset and a warm cache get; (substitution) = the substituted dataset is "
        "used as a dependency on the selected path; (reflection) = instance with the operation observed. part "
        "'log-emitters': every documented way of emitting a log line (labrea.logging.DEBUG..CRITICAL, LogEffect, Logged with "
        "log_first on/off, a dataset carrying a LogEffect) x level x logger x message x switch (on / option / context): one "
        "LogRequest with that level, logger and message is observed, exactly that record reaches a capturing "
        "logging.Handler, nothing when disabled, and the wrapped value is unchanged.")
ASSUMPTIONS = [
    "a pass-through handler delegates to the runtime that was current when it was installed",
    "reference interpreter with an override table for the substitution part",
]

NINE = [EvaluateRequest, ValidateRequest, KeysRequest, ExplainRequest, CacheGetRequest, CacheSetRequest, CacheExistsRequest,
        LogRequest, TypeValidationRequest]
OPS = {"evaluate": (EvaluateRequest, "evaluatable", Evaluatable), "validate": (ValidateRequest, "validatable", Validatable),
       "keys": (KeysRequest, "cacheable", Cacheable), "explain": (ExplainRequest, "explainable", Explainable)}


def recording(types=NINE):
    """(context manager, list of observed requests): pass-through handlers for `types`."""
    seen = []
    outer = runtime.current_runtime()

    def handler(request):
        seen.append(request)
        return outer.run(request)

    return runtime.handle({t: handler for t in types}), seen


# ---- reflection ---------------------------------------------------------------------------------------------
def labrea_classes():
    out = []
    for m in pkgutil.iter_modules(labrea.__path__):
        mod = importlib.import_module(f"labrea.{m.name}")
        for name, obj in vars(mod).items():
            if inspect.isclass(obj) and obj.__module__ == mod.__name__ and issubclass(obj, (Evaluatable, Validatable, Cacheable, Explainable)):
                out.append(obj)
    return sorted(set(out), key=lambda c: (c.__module__, c.__qualname__))


def factories():
    """type -> instance, built through the public API."""
    import labrea.functions as F
    from labrea import (Iter, Map, Option, Template, WithOptions, cached, case, coalesce, dataset, datasetclass, interface,
                        pipeline_step, switch)
    from labrea.application import FunctionApplication, PartialApplication
    from labrea.arguments import EvaluatableArgs, EvaluatableArguments, EvaluatableKwargs
    from labrea.computation import CallbackEffect, ChainedEffect, Computation
    from labrea.logging import LogEffect, Logged
    from labrea.overload import Overloaded
    from labrea.types import Value

    @dataset(dispatch="K")
    def ds(a=Option("A", 1)):
        return a

    @pipeline_step
    def stp(x, p=Option("B", 2)):
        return (x, p)

    @Option.namespace
    class NSX:
        P = 1

    @datasetclass
    class DC:
        x: int = Option("A", 1)

    insts = [
        Value(1), Option("A", 1), Option("A", 1).apply(str), Option("A", 1).bind(lambda v: Value(v)), WithOptions(Option("A"), {"A": 1}),
        labrea.AllOptions, NSX, Template("{A}{:p:}", p=1), switch(Option("K", 1), {1: "x"}, "y"), case(Option("A", 1)).when(F.eq(1), "x").otherwise("y"),
        coalesce(Option("Z"), 1), Iter(Option("A", 1), 2), Map(Option("A"), {"A": [1, 2]}), FunctionApplication(lambda a: a, Option("A", 1)),
        PartialApplication(lambda a, b: a, Option("A", 1)), EvaluatableArgs(Value(1)), EvaluatableKwargs(a=Value(1)),
        EvaluatableArguments(Value(1), a=Value(2)), cached(Option("A", 1)), Computation(Option("A", 1), CallbackEffect(lambda v: None)),
        Logged(Option("A", 1), logging.INFO, "x", "msg"), Overloaded(Option("K", 1), {1: Value("x")}, Value("y")), ds, stp, stp + stp, DC,
        ChainedEffect(CallbackEffect(lambda v: None)), CallbackEffect(lambda v: None), LogEffect(logging.INFO, "x", "m"),
    ]
    # the private helper type used by switch
    from labrea.conditional import _DependsOn
    insts.append(_DependsOn(Option("A", 1), Option("K", 1)))
    return {type(i): i for i in insts}


def enum_reflection(ctx):
    classes = labrea_classes()
    fac = factories()
    without = [f"{c.__module__}.{c.__qualname__}" for c in classes if c not in fac and not inspect.isabstract(c)]
    ctx.extras["types_enumerated"] = [len(classes)]
    ctx.extras["types_without_factory"] = without
    k = 0
    for c in classes:
        for op in OPS:
            k += 1
            if k % ctx.nshards != ctx.shard:
                continue
            yield {"cls": f"{c.__module__}.{c.__qualname__}", "op": op}


def check_reflection(case, ctx):
    modname, _, qual = case["cls"].rpartition(".")
    cls = None
    for c in labrea_classes():
        if f"{c.__module__}.{c.__qualname__}" == case["cls"]:
            cls = c
    op = case["op"]
    req_type, attr, base = OPS[op]
    if not issubclass(cls, base):
        ctx.done(case, False, ["not-applicable"])
        return
    fn = getattr(cls, op, None)
    abstract = getattr(fn, "__isabstractmethod__", False)
    if not abstract:
        if not getattr(fn, "__labrea_wrapper__", False):
            raise Violation("no-request-wrapper", f"{case['cls']}.{op} is not the request-issuing wrapper")
        saved = getattr(cls, f"__labrea_{op}__", None)
        if saved is None or getattr(saved, "__labrea_wrapper__", False):
            raise Violation("no-saved-original", f"{case['cls']}.__labrea_{op}__ is missing or is itself the wrapper")
    inst = factories().get(cls)
    if inst is None or abstract:
        ctx.done(case, False, ["no-instance"])
        return
    o = {"A": 3, "B": 4, "K": 1}
    plain = run(getattr(inst, op), o)
    cm, seen = recording([req_type])
    with cm:
        handled = run(getattr(inst, op), o)
    subjects = [getattr(r, attr) for r in seen]
    if not any(s is inst for s in subjects):
        raise Violation("operation-not-a-request", f"{case['cls']}.{op}: no {req_type.__name__} with the instance as subject was issued (saw {len(seen)})")
    comparable = not (plain.ok and (" at 0x" in plain.value or "function" in plain.value))
    if plain.ok != handled.ok or (plain.ok and comparable and plain.value != handled.value):
        raise Violation("pass-through-changed-result", f"{case['cls']}.{op}: {plain!r} without handler, {handled!r} with pass-through handler")
    ctx.done(case, True, ["observed:" + op])


# ---- generated graphs ------------------------------------------------------------------------------------------
def ds_name(evaluatable):
    m = _DS_NAME.search(getattr(evaluatable, "msg", "") or "")
    return m.group(1).split(".")[-1] if m else None


def check_graph(case, ctx):
    spec = specgen.normalise(case["spec"], ctx.flags | {"no-allopts"}, ctx)
    ref = Ref(spec)
    if specgen.k6_excluded(ctx, ref, case["options"], single_evaluation=True):
        ctx.done(case, False, ["excluded-K6"])
        return
    labels = set()
    nontrivial = False
    cacheable = {d["name"] for d in spec["defs"] if not d.get("nocache")}
    for o in case["options"]:
        r = ref.run(o)
        plain = {op: run(getattr(build(spec).root, op), o) for op in OPS}
        G = build(spec)
        for phase in ("cold", "warm"):
            cm, seen = recording()
            with cm:
                got = run(G.root.evaluate, o)
            where = f"{phase} options={o}"
            if got.ok != plain["evaluate"].ok or (got.ok and got.value != plain["evaluate"].value):
                raise Violation("pass-through-changed-result", f"{where}: {plain['evaluate']!r} unhandled but {got!r} under pass-through handlers")
            by = collections.defaultdict(list)
            for q in seen:
                by[type(q)].append(q)
            ev_subjects = [q.evaluatable for q in by[EvaluateRequest]]
            if not any(s is G.root for s in ev_subjects):
                raise Violation("evaluation-not-observed", f"{where}: no EvaluateRequest for the root object")
            if r.ok:
                for name in r.must:
                    d = G.ds.get(name)
                    if d is None:
                        continue
                    reached_directly = any(s is d for s in ev_subjects) or any(s is dd for b, dd in G.derived if b == name for s in ev_subjects)
                    if phase == "cold" and not reached_directly:
                        raise Violation("nested-evaluation-not-observed", f"{where}: dataset {name} is needed but no EvaluateRequest had it as subject")
                if phase == "cold" and not r.speculated:
                    # (without absorbed failures everything the reference evaluates is really needed)
                    seen_classes = {getattr(s, "__vlib_key__", None) for s in ev_subjects}
                    for key in r.dclass_nodes:
                        if key not in seen_classes:
                            raise Violation("nested-evaluation-not-observed", f"{where}: the dataset class {key[:200]} is evaluated (possibly nested in another "
                                                                              f"dataset class) but no EvaluateRequest had it as subject")
                        labels.add("dataset-class-observed")
                exists_ds = collections.Counter(ds_name(q.evaluatable) for q in by[CacheExistsRequest])
                set_ds = collections.Counter(ds_name(q.evaluatable) for q in by[CacheSetRequest])
                get_ds = collections.Counter(ds_name(q.evaluatable) for q in by[CacheGetRequest])
                log_ds = collections.Counter(ds_name(q) for q in by[LogRequest])
                derived_bases = {b for b, _ in G.derived}
                for name in (r.must - r.spec_bodies) & cacheable:
                    if name not in G.ds or name in derived_bases:
                        # (a copy derived from a dataset shares its name: which of the two objects a request belongs to
                        # cannot be told from the name)
                        continue
                    if not any(s is G.ds[name] for s in ev_subjects):
                        continue   # served through a consumer's cache hit: never reached in this phase
                    if not exists_ds.get(name):
                        raise Violation("cache-exists-not-a-request", f"{where}: no CacheExistsRequest for dataset {name}")
                    if phase == "cold" and not set_ds.get(name):
                        raise Violation("cache-set-not-a-request", f"{where}: dataset {name} was computed but no CacheSetRequest was issued")
                    if phase == "warm":
                        if not get_ds.get(name):
                            raise Violation("cache-get-not-a-request", f"{where}: warm dataset {name} but no CacheGetRequest was issued")
                        labels.add("warm-get")
                if not r.speculated:
                    a = {k: v for k, v in log_ds.items() if k}
                    b = {k: v for k, v in set_ds.items() if k}
                    if a != b:
                        raise Violation("log-not-a-request", f"{where}: log requests {a} but computed evaluations (store requests) {b}")
                opt_evals = [q for q in by[EvaluateRequest] if type(q.evaluatable).__name__ == "Option"]
                tv = len(by[TypeValidationRequest])
                if tv > len(opt_evals):
                    raise Violation("type-validation-count", f"{where}: {tv} type-validation requests but only {len(opt_evals)} Option evaluations")
                if opt_evals and r.ok and phase == "cold" and not r.speculated and tv == 0 and any(p for p in r.reads.values()):
                    raise Violation("type-validation-not-a-request", f"{where}: options were read but no TypeValidationRequest was issued")
                if len(by[EvaluateRequest]) >= 5 and r.must and phase == "warm" and "warm-get" in labels:
                    nontrivial = True
        # handlers installed by the caller keep applying inside labrea's own nested contexts
        import labrea.cache
        import labrea.logging
        for name, inner in (("cache.disabled()", labrea.cache.disabled), ("logging.disabled()", labrea.logging.disabled)):
            G2 = build(spec)
            cm, seen = recording([EvaluateRequest, KeysRequest, TypeValidationRequest])
            with cm:
                with inner():
                    got = run(G2.root.evaluate, o)
            if got.ok != plain["evaluate"].ok or (got.ok and got.value != plain["evaluate"].value):
                raise Violation("pass-through-changed-result", f"inside {name}: {plain['evaluate']!r} unhandled but {got!r} under pass-through handlers")
            if not any(isinstance(q, EvaluateRequest) and q.evaluatable is G2.root for q in seen):
                raise Violation("handler-lost-in-nested-context", f"options={o}: a pass-through EvaluateRequest handler installed outside {name} observed "
                                                                  f"nothing inside it ({len(seen)} requests seen)")
            labels.add("nested-in-" + name)
        for op in ("keys", "validate", "explain"):
            cm, seen = recording()
            with cm:
                got = run(getattr(build(spec).root, op), o)
            if got.ok != plain[op].ok or (got.ok and got.value != plain[op].value):
                raise Violation("pass-through-changed-result", f"{op}({o}): {plain[op]!r} unhandled but {got!r} under pass-through handlers")
            if not any(isinstance(q, OPS[op][0]) for q in seen):
                raise Violation("operation-not-a-request", f"{op}({o}) issued no {OPS[op][0].__name__}")
            root = spec["root"]
            if op == "validate" and root["k"] == "ref" and root["name"] in cacheable:
                # validating a cached dataset consults its cache: that lookup is a request too
                if not any(isinstance(q, CacheExistsRequest) and ds_name(q.evaluatable) == root["name"] for q in seen):
                    raise Violation("cache-exists-not-a-request", f"validate({o}) of cached dataset {root['name']} issued no CacheExistsRequest for it")
                labels.add("validate-cache-lookup-observed")
        labels |= r.labels
    ctx.done(case, nontrivial, labels)


def check_substitution(case, ctx):
    spec = specgen.normalise(case["spec"], ctx.flags | {"no-allopts"}, ctx)
    names = [d["name"] for d in spec["defs"]]
    target = names[case["target"] % len(names)]
    sentinel = ("SUBSTITUTED", target) if spec["defs"][names.index(target)]["body"] == "tag" else "SUBSTITUTED"
    labels = set()
    nontrivial = False
    if specgen.k6_excluded(ctx, Ref(spec), case["options"], single_evaluation=True) or \
            specgen.k6_excluded(ctx, Ref(spec, overrides={target: sentinel}), case["options"], single_evaluation=True):
        ctx.done(case, False, ["excluded-K6"])
        return
    for o in case["options"]:
        plain_ref = Ref(spec).run(o)
        r = Ref(spec, overrides={target: sentinel}).run(o)
        G = build(spec)
        tgt_objs = [G.ds[target]] + [dd for b, dd in G.derived if b == target]
        outer = runtime.current_runtime()

        def subst(attr, answer):
            def handler(request):
                if any(getattr(request, attr) is t for t in tgt_objs):
                    return answer() if callable(answer) else answer
                return outer.run(request)
            return handler

        # a mock for the dataset: its value, and (so that consumers can be cached) no keys / nothing to validate
        with runtime.handle({EvaluateRequest: subst("evaluatable", sentinel), KeysRequest: subst("cacheable", set),
                             ValidateRequest: subst("validatable", None), ExplainRequest: subst("explainable", set)}):
            got = run(G.root.evaluate, o)
            # ... and still inside labrea's own nested contexts (fresh build: nothing cached from the first evaluation)
            import labrea.cache
            G3 = build(spec)
            tgt_objs[:] = [G3.ds[target]] + [dd for b, dd in G3.derived if b == target]
            with labrea.cache.disabled():
                got_nested = run(G3.root.evaluate, o)
        if got.ok != r.ok or (r.ok and got.value != r.value):
            raise Violation("substitution-not-honoured", f"options={o}: substituting {sentinel!r} for {target}: got {got!r} but expected {r!r}")
        if got_nested.ok != r.ok or (r.ok and got_nested.value != r.value):
            raise Violation("substitution-lost-in-nested-context", f"options={o}: substituting {sentinel!r} for {target} inside cache.disabled(): got {got_nested!r} but expected {r!r}")
        if r.ok and plain_ref.ok and r.value != plain_ref.value:
            nontrivial = True
            labels.add("substitution-visible")
    ctx.done(case, nontrivial, labels)


@st.composite
def cases(draw, prof):
    spec = draw(specgen.specs(prof))
    p = draw(st.sampled_from([0.7, 0.9]))
    return {"spec": spec, "options": [draw(U.option_dicts(p_present=p)) for _ in range(2)], "target": draw(st.integers(0, 5))}


# ---- user-level log emitters (labrea.logging.INFO(...), LogEffect, Logged) -------------------------------------------
LEVELS = {"DEBUG": logging.DEBUG, "INFO": logging.INFO, "WARNING": logging.WARNING, "ERROR": logging.ERROR, "CRITICAL": logging.CRITICAL}


class _Capture(logging.Handler):
    def __init__(self):
        super().__init__(level=logging.DEBUG)
        self.records = []

    def emit(self, record):
        self.records.append((record.levelno, record.name, record.getMessage()))


def check_emitters(case, ctx):
    """Every documented way of emitting a log line goes through a LogRequest (observable, and silenced by both switches)."""
    import labrea.logging as ll
    from labrea import Option, dataset
    lvl, name, msg = LEVELS[case["level"]], case["logger"], case["msg"]
    o = dict(case["options"])
    if case["switch"] == "opt":
        o = U.overlay(o, {"LABREA": {"LOGGING": {"DISABLED": True}}})
    kind = case["emitter"]
    expect_value = None
    if kind == "function":
        emit = lambda: getattr(ll, case["level"])(name, msg, o)
    elif kind == "effect-direct":
        emit = lambda: ll.LogEffect(lvl, name, msg).transform(None, o)
    elif kind == "logged":
        node = ll.Logged(Option("A", 7), lvl, name, msg, log_first=case["log_first"])
        emit = lambda: node.evaluate(o)
        expect_value = o.get("A", 7)
    else:   # a dataset carrying a LogEffect
        def body(a=Option("A", 7)):
            return ("v", a)
        body.__name__ = "emitting"
        ds = dataset(effects=[ll.LogEffect(lvl, name, msg)])(body)
        emit = lambda: ds.evaluate(o)
        expect_value = ("v", o.get("A", 7))
    cap = _Capture()
    logger = logging.getLogger(name)
    old_level, old_prop = logger.level, logger.propagate
    logger.addHandler(cap)
    logger.setLevel(logging.DEBUG)
    try:
        ctxm, seen = recording([LogRequest])
        with ctxm:
            if case["switch"] == "ctx":
                with ll.disabled():
                    out = run(emit)
            else:
                out = run(emit)
    finally:
        logger.removeHandler(cap)
        logger.setLevel(old_level)
    where = f"{kind} level={case['level']} logger={name!r} msg={msg!r} switch={case['switch']} log_first={case.get('log_first')} options={o}"
    if not out.ok:
        raise Violation("log-emitter-failed", f"{where}: {out!r}")
    if expect_value is not None and out.value != sem.typed(expect_value):
        raise Violation("log-emitter-changed-value", f"{where}: value {out.value}, expected {sem.typed(expect_value)}")
    mine = [r for r in cap.records if r[2] == msg]
    reqs = [r for r in seen if r.msg == msg]
    if case["switch"] == "ctx":
        # the block replaces the handler: the recording handler outside it is rightly bypassed
        if mine:
            raise Violation("log-emitted-while-disabled", f"{where}: records {mine}")
    else:
        if len(reqs) != 1 or (reqs[0].level, reqs[0].name) != (lvl, name):
            raise Violation("log-emission-not-a-request", f"{where}: observed LogRequests {[(r.level, r.name, r.msg) for r in reqs]}, expected exactly one ({lvl}, {name!r})")
        if case["switch"] == "opt":
            if mine:
                raise Violation("log-emitted-while-disabled", f"{where}: records {mine}")
        elif mine != [(lvl, name, msg)]:
            raise Violation("log-record-differs", f"{where}: records {mine}, expected one ({lvl}, {name!r}, {msg!r})")
    ctx.done(case, True, [f"emitter={kind}", f"switch={case['switch']}", f"level={case['level']}"])


@st.composite
def emitter_cases(draw):
    return {"emitter": draw(st.sampled_from(["function", "effect-direct", "logged", "logged", "dataset-effect"])),
            "level": draw(st.sampled_from(sorted(LEVELS))), "logger": draw(st.sampled_from(["vlib.emit", "vlib.emit.sub", "other"])),
            "msg": "m-" + draw(st.text("abc {}%", max_size=6)), "switch": draw(st.sampled_from(["on", "on", "opt", "ctx"])),
            "log_first": draw(st.booleans()), "options": draw(st.sampled_from([{}, {"A": 1}, {"A": None, "B": 2}]))}


PROFILE = specgen.profile(depth=2, domain_rate=0.01)
PARTS = [
    Part("reflection", check_reflection, enumerate=enum_reflection, budget={"quick": None, "thorough": None}),
    Part("graphs", check_graph, strategy=lambda ctx: cases(PROFILE), budget={"quick": 150, "thorough": 800}),
    Part("substitution", check_substitution, strategy=lambda ctx: cases(PROFILE), budget={"quick": 150, "thorough": 800}),
    Part("log-emitters", check_emitters, strategy=lambda ctx: emitter_cases(), budget={"quick": 100, "thorough": 600}),
]
