"""C19 — dataset classes: members are evaluations; equality follows relevant options."""
from __future__ import annotations

import copy

from hypothesis import strategies as st
from labrea import datasetclass

from .. import sem, specgen, universe as U
from ..build import build, run
from ..harness import Part, Violation

PID = "C19"
LEVEL = "exploration"
RULE = ("a generated dataset class (own and inherited members: Options with flat and dotted keys, defaulted Options, "
        "datasets, collection expressions, annotated and un-annotated constants) x a pair of option dictionaries related "
        "by an edit of an irrelevant key / a relevant flat key / a relevant nested key / a defaulted key / a key whose name "
        "extends another reported key without lying inside it (A / AB, S.X / S.XY) / nothing. Checked: "
        "every evaluatable member of the instance equals that member's own evaluation and every plain member its "
        "constant; class keys / explain are the union over members and class validate fails iff some member's does; two "
        "instances are equal exactly when the dictionaries restricted to the keys the class reports for them are equal "
        "(independent nested restriction); repr names every reported key together with its value. Non-trivial = the class "
        "reports a nested dotted key and the pair differs in a reported key or only in unreported ones; distinct = "
        "distinct (class, pair) hash.")
ASSUMPTIONS = [
    "members' own behaviour is the oracle for the class (the class adds union / instantiation / equality only)",
]

NAMES = ["a", "b", "c", "d", "e", "_p", "_q"]     # single-underscore names are members like any other
LOOKALIKE = ["AB", "S.XY", "R.UV", "SX"]


def make_class(case, built):
    def members(ms):
        ns, ann = {}, {}
        for m in ms:
            if m["kind"] == "node":
                ns[m["name"]] = built.node(m["node"])
                if m.get("annotated"):
                    ann[m["name"]] = int
            else:
                ns[m["name"]] = copy.deepcopy(m["value"])
                if m.get("annotated"):
                    ann[m["name"]] = int
        if ann:
            ns["__annotations__"] = ann
        return ns
    base = type("Base", (), members(case["base"])) if case["base"] else object
    if case.get("base_is_dc") and case["base"]:
        # the parent is a dataset class in its own right and is used before the child
        base = datasetclass(base)
        for o in (case["o1"], case["o2"]):
            for op in (base.keys, base.explain, base.validate, base):
                try:
                    op(o)
                except Exception:
                    pass
    cls = type("DC", (base,), members(case["own"]))
    return datasetclass(cls)


def all_members(case):
    out = {}
    for m in case["base"] + case["own"]:
        out[m["name"]] = m
    return out


def check(case, ctx):
    spec = {"defs": case["defs"], "root": {"k": "val", "v": None}}
    if "no-set-list-index" in ctx.flags:
        # known finding K5 (no list support in set_dotted_key) also breaks instantiation when a list-indexed
        # key is reported: such keys are rewritten to the list they index
        hit = []

        def fix(n):
            if n["k"] == "opt" and any(seg.isdigit() for seg in n["key"].split(".")):
                n["key"] = n["key"].split(".")[0]
                hit.append(1)
        case = copy.deepcopy(case)
        spec = {"defs": case["defs"], "root": {"k": "val", "v": None}}
        specgen.walk(case, fix)
        if hit:
            ctx.exclude("no-set-list-index")
    o1, o2 = case["o1"], case["o2"]
    labels = set()
    ms = all_members(case)
    insts = []
    Ks = []
    b = build(spec)
    dc = make_class(case, b)
    for o in (o1, o2):
        # members evaluated separately on a fresh build
        bm = build(spec)
        exp_vals, exp_keys, exp_explain, any_fail = {}, set(), set(), False
        keys_ok = True
        explain_ok = True
        for name, m in ms.items():
            if m["kind"] == "const":
                exp_vals[name] = ("ok", sem.typed(m["value"]))
                continue
            node = bm.node(m["node"])
            ev = run(node.evaluate, o)
            exp_vals[name] = ("ok", ev.value) if ev.ok else ("fail",)
            ks = run(node.keys, o)
            if ks.ok:
                exp_keys |= node.keys(o)
            else:
                keys_ok = False
            ex = run(node.explain, o)
            if ex.ok:
                exp_explain |= node.explain(o)
            else:
                explain_ok = False
            if not run(node.validate, o).ok:
                any_fail = True
        inst = run(lambda: dc(o))
        should = all(v[0] == "ok" for v in exp_vals.values())
        if inst.ok != should:
            raise Violation("instantiation", f"DC({o}): instantiation {'succeeded' if inst.ok else 'failed'} but members evaluate {exp_vals}")
        val = run(dc.validate, o)
        if val.ok == any_fail:
            raise Violation("validate-union", f"DC.validate({o}) {'passes' if val.ok else 'fails'} but members' validate {'fail' if any_fail else 'pass'}")
        ks = run(dc.keys, o)
        if ks.ok != keys_ok:
            raise Violation("keys-union", f"DC.keys({o}) {'ok' if ks.ok else 'fails'} but members' keys {'ok' if keys_ok else 'fail'}")
        if ks.ok and dc.keys(o) != exp_keys:
            raise Violation("keys-union", f"DC.keys({o}) = {sorted(dc.keys(o))} but the union over members is {sorted(exp_keys)}")
        exc = run(dc.explain, o)
        if exc.ok != explain_ok:
            raise Violation("explain-union", f"DC.explain({o}) {'ok' if exc.ok else 'fails'} but members' explain {'ok' if explain_ok else 'fail'}")
        if exc.ok and dc.explain(o) != exp_explain:
            raise Violation("explain-union", f"DC.explain({o}) = {sorted(dc.explain(o))} but the union over members is {sorted(exp_explain)}")
        if not inst.ok:
            insts.append(None)
            Ks.append(None)
            continue
        obj = dc(o)
        for name, (status, tv) in exp_vals.items():
            got = sem.typed(getattr(obj, name))
            if got != tv:
                raise Violation("member-value", f"DC({o}).{name} = {got} but the member evaluates to {tv}")
        K = dc.keys(o)
        rep = repr(obj)
        for k in K:
            v = U.dotted_get(o, k)
            if k.split(".")[-1] not in rep or (not isinstance(v, (dict, list)) and repr(v) not in rep):
                raise Violation("repr", f"repr(DC({o})) = {rep} does not show reported key {k!r} with its value {v!r}")
        for k in K:
            v = U.dotted_get(o, k)
            if "." in k and v is not None and not isinstance(v, (dict, list)):
                # the value shown under the nested key must be the real one
                if f"{k.split('.')[-1]!r}: {v!r}" not in rep:
                    raise Violation("repr", f"repr(DC({o})) = {rep} does not show nested key {k!r} = {v!r}")
        insts.append(obj)
        Ks.append(K)
        if any("." in k for k in K):
            labels.add("nested-key-reported")
    # one long-lived dictionary object edited in place between two instantiations: each instance must keep the
    # options it was built from
    if insts[0] is not None and insts[1] is not None:
        live = copy.deepcopy(o1)
        first = dc(live)
        rep_before = repr(first)
        live.clear()
        live.update(copy.deepcopy(o2))
        second = dc(live)
        if repr(first) != rep_before:
            raise Violation("instance-follows-callers-dict", f"repr of DC({o1}) changed from {rep_before} to {repr(first)} after the caller edited its dictionary in place to {o2}")
        if (first == second) != (insts[0] == insts[1]):
            raise Violation("instance-follows-callers-dict", f"built from one dictionary object edited in place ({o1} -> {o2}): instances compare "
                                                             f"{first == second}, built from separate dictionaries {insts[0] == insts[1]}")
        labels.add("same-dict-object-edited-in-place")
    # what an instance holds is its own: a user (or a sibling member's function) working in place on an evaluated member
    # changes neither the caller's dictionary nor what the instance was built from
    if insts[0] is not None:
        live = copy.deepcopy(o1)
        obj = dc(live)
        rep0 = repr(obj)
        twin = dc(copy.deepcopy(o1))
        touched = False
        for nm in ms:
            v = getattr(obj, nm)
            if isinstance(v, list):
                v.append("edited-in-place")
                touched = True
            elif isinstance(v, dict):
                v["edited-in-place"] = 1
                touched = True
        if touched:
            if sem.typed(live) != sem.typed(o1):
                raise Violation("caller-dict-shared-with-instance", f"editing the container members of DC({o1}) in place changed the caller's dictionary to {live}")
            if repr(obj) != rep0:
                raise Violation("instance-options-shared-with-members", f"editing the container members of DC({o1}) in place changed its repr from {rep0} to {repr(obj)}")
            if (obj == twin) is not True:
                raise Violation("instance-options-shared-with-members", f"after editing the container members of DC({o1}) in place it no longer equals an instance built from equal options")
            labels.add("member-edited-in-place")
    nontrivial = False
    if insts[0] is not None and insts[1] is not None:
        r1, r2 = U.restrict(o1, Ks[0]), U.restrict(o2, Ks[1])
        should_eq = r1 == r2 and Ks[0] == Ks[1]   # Python equality of the restricted dictionaries (True == 1)
        got_eq = insts[0] == insts[1]
        if got_eq != should_eq:
            raise Violation("equality", f"DC({o1}) == DC({o2}) is {got_eq} but the dictionaries restricted to the reported keys "
                                        f"{sorted(Ks[0])} / {sorted(Ks[1])} are {'equal' if should_eq else 'different'}: {r1} vs {r2}")
        if (insts[0] == insts[0]) is not True:
            raise Violation("equality", "an instance is not equal to itself")
        labels.add("equal" if should_eq else "different")
        labels.add("pair:" + case["relation"])
        nontrivial = "nested-key-reported" in labels and sem.typed(o1) != sem.typed(o2)
    if any(nm.startswith("_") for nm in ms):
        labels.add("underscore-member")
    ctx.done(case, nontrivial, labels)


@st.composite
def cases(draw):
    g = specgen._G(draw, specgen.profile(domain_rate=0.0, max_defs=2, templates=False, effects=False, presets=False, overloads=False))
    for i in range(draw(st.integers(0, 2))):
        g.defs.append(g.dataset_def(i))

    def member(name):
        kind = draw(st.sampled_from(["flat", "dotted", "dotted", "defaulted", "ds", "expr", "const", "const_ann", "lookalike", "section"]))
        if kind == "section":
            # a member that is a whole section (a dictionary) or a list
            return {"name": name, "kind": "node", "node": {"k": "opt", "key": draw(st.sampled_from(["S", "R.U", "L"])), "default": {"t": "const", "v": [1, [2]]}},
                    "annotated": draw(st.booleans())}
        if kind == "lookalike":
            # a key that extends another reported key as a string without being inside it (A / AB, S.X / S.XY)
            return {"name": name, "kind": "node", "node": {"k": "opt", "key": draw(st.sampled_from(LOOKALIKE))}, "annotated": draw(st.booleans())}
        if kind == "flat":
            return {"name": name, "kind": "node", "node": {"k": "opt", "key": draw(st.sampled_from(U.FLAT))}, "annotated": draw(st.booleans())}
        if kind == "dotted":
            return {"name": name, "kind": "node", "node": {"k": "opt", "key": draw(st.sampled_from(["S.X", "S.Y", "R.U.V", "R.K"]))}, "annotated": draw(st.booleans())}
        if kind == "defaulted":
            return {"name": name, "kind": "node", "node": {"k": "opt", "key": draw(st.sampled_from(["B", "S.Z", "T"])), "default": {"t": "const", "v": draw(st.sampled_from([0, None, "x"]))}},
                    "annotated": draw(st.booleans())}
        if kind == "ds" and g.defs:
            return {"name": name, "kind": "node", "node": {"k": "ref", "name": draw(st.sampled_from(g.defs))["name"]}, "annotated": draw(st.booleans())}
        if kind == "expr":
            return {"name": name, "kind": "node", "node": {"k": "tuple", "items": [{"k": "opt", "key": draw(st.sampled_from(["A", "S.X"]))}, {"k": "val", "v": 1}]},
                    "annotated": draw(st.booleans())}
        return {"name": name, "kind": "const", "value": draw(st.sampled_from([1, "c", None, [1]])), "annotated": kind == "const_ann"}

    names = draw(st.permutations(NAMES))
    n_own = draw(st.integers(1, 4))
    n_base = draw(st.integers(0, 2))
    own = [member(nm) for nm in names[:n_own]]
    base = [member(nm) for nm in names[n_own:n_own + n_base]]
    o1 = draw(U.option_dicts(templates=False, p_present=0.9))
    for k in LOOKALIKE:
        if draw(st.integers(0, 9)) > 0:
            o1 = U.dotted_set(o1, k, draw(st.sampled_from([1, 2, "q", None, False])))
    used = [m["node"]["key"] for m in own + base if m["kind"] == "node" and m["node"].get("key") in LOOKALIKE]
    relation = draw(st.sampled_from(["same", "irrelevant", "flat", "nested", "nested", "delete"] + (["lookalike"] * 3 if used else [])))
    if relation == "same":
        o2 = copy.deepcopy(o1)
    elif relation == "irrelevant":
        o2 = U.dotted_set(o1, draw(st.sampled_from(U.UNMENTIONED[:2] + ["E"])), draw(U.scalars()))
    elif relation == "lookalike":
        k = draw(st.sampled_from(used))
        cur = U.dotted_get(o1, k)
        o2 = U.dotted_set(o1, k, draw(st.sampled_from([v for v in [1, 2, "q", None, False] if sem.typed(v) != sem.typed(cur)])))
    elif relation == "flat":
        o2 = U.dotted_set(o1, draw(st.sampled_from(U.FLAT + ["T"])), draw(st.sampled_from([1, 2, "q", None])))
    elif relation == "nested":
        o2 = U.dotted_set(o1, draw(st.sampled_from(["S.X", "S.Y", "S.Z", "R.U.V", "R.K"])), draw(st.sampled_from([1, 2, "q", None, True])))
    else:
        o2 = U.dotted_del(o1, draw(st.sampled_from(["B", "S.Z", "T", "A", "S.X"])))
    return {"defs": g.defs, "own": own, "base": base, "o1": o1, "o2": o2, "relation": relation, "base_is_dc": draw(st.booleans())}


PARTS = [
    Part("classes", check, strategy=lambda ctx: cases(), budget={"quick": 900, "thorough": 4000}),
]
