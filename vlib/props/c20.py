"""C20 — datasets survive a pickle round trip with identical behaviour."""
from __future__ import annotations

import base64
import copy
import json
import os
import pickle
import subprocess
import sys

from hypothesis import strategies as st
from labrea.types import Value

from .. import pmod, specgen, universe as U
from ..build import run
from ..harness import HERE, Part, Violation
from ..pbuild import pbuild
from ..ref import Ref

PID = "C20"
LEVEL = "exploration"
RULE = ("program specs restricted to picklable parts (every body, callback, effect, factory, predicate and applied function is "
        "an importable module-level function of vlib/pmod.py or a functools.partial of one; explicit dataset(f, defaults=) and "
        ".where() forms; options, overloads registered before pickling, pre-set/default options) x 3 option dictionaries x "
        "pickle protocols 0-5. (root, datasets) is pickled and loaded in-process (every protocol) and in a freshly started "
        "child interpreter (one protocol per case): for every dictionary the loaded graph's outcome (typed value or failure "
        "descriptor) and keys must equal those of a fresh build; afterwards register() on a loaded dispatching dataset "
        "followed by evaluation must give the reference value for the extended program. part 'decorator-form': the "
        "module-level @dataset-decorated function and the explicit dataset(f) twin of vlib/pmod.py are round-tripped. "
        "Non-trivial = the program has an overload or pre-set/default options and at least one evaluation succeeds through "
        "a dataset after loading in the child process; distinct = distinct (spec, dictionaries) hash.")
ASSUMPTIONS = [
    "helper predicates / Map.values / helper-step domains hold lambdas and are therefore outside 'picklable parts'",
    "child interpreter: same Python, PYTHONPATH = repo + /verif",
]


def outcomes(root, dicts):
    out = []
    for o in dicts:
        ev = run(root.evaluate, copy.deepcopy(o))
        ks = run(root.keys, copy.deepcopy(o))
        out.append([list(map(str, ev.key())) if not ev.ok else ["ok", ev.value], ["ok", ks.value] if ks.ok else ["fail", str(ks.fail)]])
    return out


def child_outcomes(blob, dicts):
    env = dict(os.environ)
    p = subprocess.run([sys.executable, "-m", "vlib.props.c20child"], input=json.dumps({"blob": base64.b64encode(blob).decode(), "dicts": dicts}),
                       capture_output=True, text=True, env=env, cwd=HERE, timeout=120)
    if p.returncode != 0:
        raise Violation("child-cannot-load", "child interpreter failed: " + p.stderr[-1500:])
    return json.loads(p.stdout)


def check(case, ctx):
    spec = specgen.normalise(case["spec"], ctx.flags | {"no-allopts"}, ctx)
    dicts = case["options"]
    fresh = pbuild(spec)
    expected = outcomes(fresh.root, dicts)
    labels = set()
    G = pbuild(spec)
    blobs = {}
    for proto in range(0, pickle.HIGHEST_PROTOCOL + 1):
        try:
            blobs[proto] = pickle.dumps((G.root, G.ds), protocol=proto)
        except Exception as e:
            raise Violation("cannot-pickle", f"protocol {proto}: {type(e).__name__}: {e}")
        root2, ds2 = pickle.loads(blobs[proto])
        got = outcomes(root2, dicts)
        if got != expected:
            bad = [(d, g, e) for d, g, e in zip(dicts, got, expected) if g != e][0]
            raise Violation("behaviour-changed-in-process", f"protocol {proto}: options={bad[0]}: loaded {bad[1]} but fresh build {bad[2]}")
        labels.add(f"protocol={proto}")
    # every dataset (and the root) pickled on its own as well: what pickle meets first matters for shared / cyclic parts
    proto = case["child_protocol"] % (pickle.HIGHEST_PROTOCOL + 1)
    for name in [None] + [d["name"] for d in spec["defs"]]:
        obj = G.root if name is None else G.ds[name]
        exp_obj = fresh.root if name is None else fresh.ds[name]
        exp_single = expected if name is None else outcomes(exp_obj, dicts)
        try:
            loaded = pickle.loads(pickle.dumps(obj, protocol=proto))
        except Exception as e:
            raise Violation("cannot-pickle", f"{name or 'root'} alone, protocol {proto}: {type(e).__name__}: {e}")
        got = outcomes(loaded, dicts)
        if got != exp_single:
            bad = [(d, g, e) for d, g, e in zip(dicts, got, exp_single) if g != e][0]
            raise Violation("behaviour-changed-in-process", f"{name or 'root'} pickled on its own (protocol {proto}): options={bad[0]}: loaded {bad[1]} "
                                                            f"but fresh build {bad[2]}")
    got = child_outcomes(blobs[proto], dicts)
    if got != expected:
        bad = [(d, g, e) for d, g, e in zip(dicts, got, expected) if g != e][0]
        raise Violation("behaviour-changed-in-child", f"protocol {proto}: options={bad[0]}: child {bad[1]} but fresh build {bad[2]}")
    labels.add("child-process")
    # a user-written subclass of a public class (Overloaded) that carries state of its own, wrapped around the root
    from .. import pmod
    from labrea import Option
    U1 = pbuild(spec)
    user = pmod.TaggedOverloaded(Option("K", 0), {1: U1.root, "a": Option("A", None)}, U1.root, ("tag", len(spec["defs"])), case.get("strict", True))
    before_u = outcomes(user, dicts)
    try:
        user2 = pickle.loads(pickle.dumps(user, protocol=proto))
    except Exception as e:
        raise Violation("cannot-pickle", f"user subclass of Overloaded around the root, protocol {proto}: {type(e).__name__}: {e}")
    after_u = outcomes(user2, dicts)
    if after_u != before_u:
        i = [k for k in range(len(dicts)) if before_u[k] != after_u[k]][0]
        raise Violation("user-subclass-state-lost", f"a user subclass of Overloaded with instance state (tag, strict) around the root, protocol {proto}: on {dicts[i]} "
                                                    f"the original answers {before_u[i]} but its round-tripped copy {after_u[i]}")
    labels.add("user-subclass-round-trip")
    # per-dataset switches set before pickling (disable_effects()) travel with the copy
    with_effects = [d["name"] for d in spec["defs"] if d.get("effects")]
    if with_effects:
        T1 = pbuild(spec)
        off = [nm for i, nm in enumerate(with_effects) if (case.get("toggle_mask", 1) >> i) & 1]
        for nm in off:
            T1.ds[nm].disable_effects()
        try:
            t_root, t_ds = pickle.loads(pickle.dumps((T1.root, T1.ds), protocol=proto))
        except Exception as e:
            raise Violation("cannot-pickle", f"graph with disable_effects() on {off}, protocol {proto}: {type(e).__name__}: {e}")
        before_t = outcomes(T1.root, dicts) + [outcomes(T1.ds[nm], dicts) for nm in with_effects]
        after_t = outcomes(t_root, dicts) + [outcomes(t_ds[nm], dicts) for nm in with_effects]
        if after_t != before_t:
            i = [k for k in range(len(before_t)) if before_t[k] != after_t[k]][0]
            raise Violation("switch-lost-in-round-trip", f"disable_effects() on {off} before pickling (protocol {proto}): "
                                                         f"{'root' if i == 0 else with_effects[i - 1]} answers {after_t[i]} after the round trip but {before_t[i]} before it")
        if off:
            labels.add("disable_effects-before-pickling")
    # a long-lived graph that has been used and reconfigured: after the round trip it must behave like the original
    # OBJECT (including what it has memoised), not like a fresh definition
    W = pbuild(spec)
    for o in dicts:
        run(W.root.evaluate, copy.deepcopy(o))
    for d in spec["defs"]:
        if isinstance(d.get("dispatch"), str):
            for o in dicts:
                v = U.dotted_get(o, d["dispatch"])
                if v is not U.ABSENT:
                    try:
                        W.ds[d["name"]].register(v, Value(("late", d["name"])))
                    except TypeError:
                        pass
    before = outcomes(W.root, dicts) + [outcomes(W.ds[d["name"]], dicts) for d in spec["defs"]]
    try:
        w_root, w_ds = pickle.loads(pickle.dumps((W.root, W.ds), protocol=proto))
    except Exception as e:
        raise Violation("cannot-pickle", f"used and reconfigured graph, protocol {proto}: {type(e).__name__}: {e}")
    after = outcomes(w_root, dicts) + [outcomes(w_ds[d["name"]], dicts) for d in spec["defs"]]
    if after != before:
        i = [k for k in range(len(before)) if before[k] != after[k]][0]
        raise Violation("behaviour-changed-after-use", f"graph evaluated on {dicts}, then late registrations, then pickled (protocol {proto}): "
                                                       f"{'root' if i == 0 else spec['defs'][i - 1]['name']} answers {after[i]} after the round trip but {before[i]} before it")
    labels.add("warm-reconfigured-round-trip")
    # unpickled datasets remain usable for registration and evaluation
    root2, ds2 = pickle.loads(blobs[proto])
    nontrivial = False
    for d in spec["defs"]:
        if isinstance(d.get("dispatch"), str):
            key = d["dispatch"]
            ds2[d["name"]].register("NEWALIAS", Value("REGISTERED"))
            spec2 = copy.deepcopy(spec)
            d2 = [x for x in spec2["defs"] if x["name"] == d["name"]][0]
            d2.setdefault("overloads", []).append(["NEWALIAS", {"k": "val", "v": "REGISTERED"}])
            spec2["root"] = {"k": "ref", "name": d["name"]}
            for o in dicts:
                o2 = U.dotted_set(o, key, "NEWALIAS")
                r = Ref(spec2).run(o2)
                ev = run(ds2[d["name"]].evaluate, o2)
                if ev.ok != r.ok or (r.ok and ev.value != r.value):
                    raise Violation("registration-after-load", f"dataset {d['name']} options={o2}: after load+register got {ev!r} but expected {r!r}")
            labels.add("late-registration")
            break
    rich = any(d.get("overloads") or d.get("options") or d.get("default_options") for d in spec["defs"])
    reached = any(e[0][0] == "ok" for e in expected) and any(d["name"] in json.dumps(spec["root"]) for d in spec["defs"])
    ctx.done(case, rich and reached, labels)


def check_forms(case, ctx):
    which = case["which"]
    if which == "deco_ds" and "no-decorator-form-pickle" in ctx.flags:
        ctx.exclude("no-decorator-form-pickle")
        ctx.done(case, False, ["excluded-K3"])
        return
    obj = getattr(pmod, which)
    o = case["options"]
    expected = run(obj.evaluate, o)
    for proto in range(0, pickle.HIGHEST_PROTOCOL + 1):
        try:
            blob = pickle.dumps(obj, protocol=proto)
        except Exception as e:
            raise Violation("cannot-pickle-" + which, f"{which} protocol {proto}: {type(e).__name__}: {e}")
        got = run(pickle.loads(blob).evaluate, o)
        if got.key() != expected.key():
            raise Violation("behaviour-changed-in-process", f"{which} protocol {proto}: {got!r} vs {expected!r}")
    ctx.done(case, True, ["form:" + which])


@st.composite
def cases(draw, prof):
    spec = draw(specgen.specs(prof))
    p = draw(st.sampled_from([0.7, 0.9]))
    return {"spec": spec, "options": [draw(U.option_dicts(p_present=p)) for _ in range(3)], "child_protocol": draw(st.integers(0, 5)),
            "toggle_mask": draw(st.integers(1, 7))}


def forms():
    return st.fixed_dictionaries({"which": st.sampled_from(["explicit_ds", "deco_ds"]), "options": st.sampled_from([{}, {"A": 2}, {"A": None}])})


PROFILE = specgen.profile(picklable=True, case_option_preds=False, lazy_root=False, depth=2, self_overload=0.5)
WALL_CAP = {"quick": 100, "thorough": 900}
PARTS = [
    Part("round-trip", check, strategy=lambda ctx: cases(PROFILE), budget={"quick": 40, "thorough": 400}),
    Part("decorator-form", check_forms, strategy=lambda ctx: forms(), budget={"quick": 6, "thorough": 12}),
]
