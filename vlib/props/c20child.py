"""Child interpreter for C20: loads a pickled (root, datasets) and prints its outcomes for the given dictionaries."""
import base64
import json
import pickle
import sys

from vlib.props.c20 import outcomes

req = json.load(sys.stdin)
root, ds = pickle.loads(base64.b64decode(req["blob"]))
print(json.dumps(outcomes(root, req["dicts"])))
