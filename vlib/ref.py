"""Reference interpreter: the eager Python meaning of a spec, written from the property statements
and docs. It never imports labrea or confectioner.

ref = Ref(spec); r = ref.run(options) ->  RefResult(ok, value(typed) | fails(set of descriptors),
      reads, must (bodies needed on the selected path), touched (bodies the eager computation may run),
      order events, visits per dataset, effect/callback log)
"""
from __future__ import annotations

import copy

from . import sem
from .universe import ABSENT, dotted_get, nest, overlay


class RFail(Exception):
    def __init__(self, fails):
        super().__init__(str(fails))
        self.fails = frozenset(fails)


class RefResult:
    def __init__(self, ok, value, fails, st):
        self.ok = ok
        self.value = value
        self.fails = fails
        self.reads = st.reads
        self.must = set(st.must)
        self.touched = set(st.touched)
        self.log = st.log
        self.visits = st.visits
        self.labels = st.labels
        self.speculated = st.speculated
        self.spec_bodies = st.spec_bodies
        self.dclass_nodes = st.dclass_nodes
        self.visit_ok = st.visit_ok
        self.full_log = st.full_log
        self.choosers = st.choosers
        self.chooser_failed = st.chooser_failed
        self.tmpl_reads = st.tmpl_reads
        self.caller_reads = st.caller_reads
        self.caller_tmpl_reads = st.caller_tmpl_reads
        # bodies the eager computation ran ONLY inside coalesce members that failed (nested failures counted once per level)
        self.failed_member_bodies = {b for b in set(st.touched)
                                     if all(i in st.failed_member_idx for i, x in enumerate(st.touched) if x == b)}

    def key(self):
        return ("ok", self.value) if self.ok else ("fail", self.fails)

    def __repr__(self):
        return f"OK {self.value}" if self.ok else f"FAIL {sorted(self.fails)}"


class _State:
    def __init__(self):
        self.reads = {}       # key -> present?
        self.read_log = []    # (key, present?) in order
        self.tmpl_reads = {}  # keys read as template references -> present?
        self.foreign_depth = 0       # >0 while evaluating under options other than the caller's (with / presets / Map assignment)
        self.caller_reads = {}       # keys read from the caller's own dictionary -> present?
        self.caller_tmpl_reads = {}  # ... of which as template references
        self.failed_member_idx = set()  # indices into `touched` of body executions inside a coalesce member that failed
        self.choosers = set() # bodies executed while computing a value that selects a branch / assignment
        self.chooser_depth = 0
        self.chooser_failed = False
        self.must = []        # bodies executed on the (so far) surviving path
        self.touched = []     # every body the eager computation executed
        self.log = []         # body / cb / effect events in eager order (surviving path)
        self.full_log = []    # every event, including those of absorbed failed attempts
        self.visits = {}      # dataset name -> list of effective option dicts
        self.labels = set()
        self.dclass_nodes = set()   # canonical JSON of every dataset-class node that was evaluated
        self.speculated = False
        self.spec_bodies = set()   # bodies executed inside an attempt that failed and was absorbed
        self.visit_ok = {}         # dataset name -> list of (effective options, ok?)


# ---- templates (own implementation) ---------------------------------------------------------------
def find_refs(s):
    """References {KEY} in s: '{' not preceded by a backslash, content without backslash, up to the
    first '}'. Returned in order of appearance (with repeats)."""
    out = []
    i = 0
    n = len(s)
    while i < n:
        if s[i] == "{" and (i == 0 or s[i - 1] != "\\"):
            j = s.find("}", i + 1)
            if j == -1:
                break
            content = s[i + 1:j]
            if "\\" in content:
                i += 1
                continue
            out.append(content)
            i = j + 1
        else:
            i += 1
    return out


class Ref:
    def __init__(self, spec, effects_disabled=(), overrides=None):
        self.spec = spec
        self.defs = {d["name"]: d for d in spec["defs"]}
        self.effects_disabled = set(effects_disabled)
        self.overrides = overrides or {}   # dataset name -> typed constant value substituted (C18)

    # -- entry ---------------------------------------------------------------------------------------
    def run(self, options, node=None):
        self.st = _State()
        self.cache_depth = 0
        try:
            v = self.ev(self.spec["root"] if node is None else node, options)
            v = sem.typed(v)
            return RefResult(True, v, None, self.st)
        except RFail as f:
            self.st.must = []
            return RefResult(False, None, f.fails, self.st)

    def emit(self, ev):
        self.st.log.append(ev)
        self.st.full_log.append(ev)

    # -- speculation: a sub-evaluation whose failure is absorbed by the parent -----------------------
    def attempt(self, fn):
        mark_must, mark_log = len(self.st.must), len(self.st.log)
        try:
            return True, fn()
        except RFail as f:
            self.st.spec_bodies.update(self.st.must[mark_must:])
            del self.st.must[mark_must:]
            del self.st.log[mark_log:]
            self.st.speculated = True
            return False, f

    def choosing(self, fn):
        """Evaluate fn() as a branch-selecting value (dispatch, bind source, case dispatch / predicate
        argument, Map iterable)."""
        self.st.chooser_depth += 1
        try:
            return fn()
        except RFail:
            self.st.chooser_failed = True
            raise
        finally:
            self.st.chooser_depth -= 1

    def all_of(self, thunks):
        """Evaluate every thunk (as an eager computation in unspecified order would); if any fails the
        whole fails with the union of failures."""
        vals, fails = [], set()
        for t in thunks:
            try:
                vals.append(t())
            except RFail as f:
                fails |= f.fails
                vals.append(None)
        if fails:
            raise RFail(fails)
        return vals

    def all_deep(self, thunks, o, depth):
        """all_of for template references: when some reference is missing, the values that *are* present
        are still resolved so that their own missing references count as possible failures too."""
        vals, fails = [], set()
        for t in thunks:
            try:
                vals.append(t())
            except RFail as f:
                fails |= f.fails
                vals.append(None)
        if fails:
            for v in vals:
                if v is not None:
                    try:
                        self.subst(v, o, depth + 1)
                    except RFail as f:
                        fails |= f.fails
            raise RFail(fails)
        return vals

    # -- option access --------------------------------------------------------------------------------
    def subst(self, value, o, depth=0):
        """Resolve templated strings inside an option value against o."""
        if depth > 40:
            raise RFail({("exc", "RecursionError")})
        if isinstance(value, dict):
            return {k: self.subst(v, o, depth + 1) for k, v in value.items()}
        if isinstance(value, list):
            return [self.subst(v, o, depth + 1) for v in value]
        if isinstance(value, str):
            refs = find_refs(value)
            if not refs:
                return value.replace("\\{", "{").replace("\\}", "}")
            self.st.labels.add("templated-value")
            if len(set(refs)) == 1 and value == "{" + refs[0] + "}":
                raw = self.get_ref(refs[0], o)
                return self.subst(raw, o, depth + 1)
            s = value
            raws = self.all_deep([(lambda r=r: self.get_ref(r, o)) for r in dict.fromkeys(refs)], o, depth)
            for r, raw in zip(dict.fromkeys(refs), raws):
                s = s.replace("{" + r + "}", str(raw))
            return self.subst(s, o, depth + 1)
        return value

    def note_walk(self, key, o):
        """Label lookups that walk into a non-container (known finding K4)."""
        cur = o
        for seg in key.split("."):
            if isinstance(cur, dict):
                if seg not in cur:
                    return
                cur = cur[seg]
            elif isinstance(cur, list):
                if not seg.lstrip("-").isdigit() or not (-len(cur) <= int(seg) < len(cur)):
                    return
                cur = cur[int(seg)]
            else:
                self.st.labels.add("scalar-section-walk")
                return

    def get_ref(self, key, o):
        self.note_walk(key, o)
        v = dotted_get(o, key)
        self.st.reads[key] = v is not ABSENT
        self.st.tmpl_reads[key] = v is not ABSENT
        if not self.st.foreign_depth:
            self.st.caller_reads[key] = v is not ABSENT
            self.st.caller_tmpl_reads[key] = v is not ABSENT
        self.st.read_log.append((key, v is not ABSENT))
        if v is ABSENT:
            raise RFail({("missing", key)})
        return v

    # -- evaluation -----------------------------------------------------------------------------------
    def ev(self, n, o):
        return getattr(self, "e_" + n["k"])(n, o)

    def e_val(self, n, o):
        return copy.deepcopy(n["v"])

    def e_opt(self, n, o):
        key = n["key"]
        dom = n.get("domain")
        if dom is not None and dom["t"] == "step":
            value, arg = self.all_of([lambda: self.opt_value(n, o), lambda: self.ev(dom["arg"], o)])
        else:
            value, arg = self.opt_value(n, o), None
        if dom is not None:
            self.st.labels.add("domain-checked")
            if dom["t"] == "container":
                ok = value in dom["v"]
            elif dom["t"] == "pred":
                ok = self.user(lambda: sem.PREDS[dom["p"]](value))
            else:
                ok = self.user(lambda: sem.HELPER_REF[dom["p"]](value, arg))
            if not ok:
                raise RFail({("domain",)})
        return value

    def opt_value(self, n, o):
        key = n["key"]
        self.note_walk(key, o)
        raw = dotted_get(o, key)
        self.st.reads[key] = raw is not ABSENT
        if not self.st.foreign_depth:
            self.st.caller_reads[key] = raw is not ABSENT
        self.st.read_log.append((key, raw is not ABSENT))
        if raw is not ABSENT:
            if raw is None or raw is False or raw == 0 or raw == "" or raw == [] or raw == {}:
                self.st.labels.add("falsy-present")
            try:
                return self.subst(raw, o)
            except RFail as f:
                # unresolvable reference inside a present value: a missing-key failure that names the
                # *referenced* key (confectioner's lookup always raises KeyError(<dotted key>)); the option's
                # own key is present and must not be reported (seeded change C12-agent6)
                raise RFail(set(f.fails))
        d = n.get("default")
        if d is None:
            raise RFail({("missing", key)})
        self.st.labels.add("default-taken")
        if d["t"] == "const":
            if isinstance(d["v"], str):
                return self.template(d["v"], {}, o)
            return copy.deepcopy(d["v"])
        if d["t"] == "tmpl":
            return self.template(d["s"], {}, o)
        if d["t"] == "factory":
            self.emit(("factory", key))
            if d.get("raises"):
                raise RFail({("exc", d["raises"])})
            return copy.deepcopy(d["v"])
        return self.ev(d["n"], o)

    def user(self, fn):
        """Run user code; an exception is a failure of the evaluation."""
        try:
            return fn()
        except RFail:
            raise
        except Exception as e:
            raise RFail({("exc", type(e).__name__)})

    def template(self, s, params, o):
        """Template text: parameters {:name:} evaluated under o, {KEY} substituted transitively, escapes
        unescaped last; result is str()."""
        refs = list(dict.fromkeys(find_refs(s)))
        names = list(params.keys())
        plain = [r for r in refs if not (r.startswith(":") and r.endswith(":") and r[1:-1] in params)]
        def both():
            pvals = self.all_of([(lambda pn=pn: self.ev(pn, o)) for pn in params.values()])
            return pvals

        # parameters and references are all needed: failures of either are possible failures
        fails = set()
        try:
            pvals = both()
        except RFail as f:
            fails |= f.fails
            pvals = [None] * len(params)
        try:
            rvals = self.all_deep([(lambda r=r: self.get_ref(r, o)) for r in plain], o, 0)
        except RFail as f:
            fails |= f.fails
            rvals = [None] * len(plain)
        if fails:
            raise RFail(fails)
        vals = list(pvals) + list(rvals)
        # a parameter's string form is inserted as text, whatever it contains (braces, backslashes): it travels through the
        # substitution of option references as an opaque token and is put in place at the very end
        token = {nm: f"\x00P{i}\x00" for i, nm in enumerate(names)}
        ptext = {nm: str(v) for nm, v in zip(names, vals[:len(names)])}
        rv = dict(zip(plain, vals[len(names):]))

        def finish(text):
            for nm in names:
                text = text.replace(token[nm], ptext[nm])
            return text

        if not refs:
            return s.replace("\\{", "{").replace("\\}", "}")

        def val_of(r):
            if r in rv:
                return rv[r]
            return token[r[1:-1]]

        if len(refs) == 1 and s == "{" + refs[0] + "}":
            return finish(str(self.subst(val_of(refs[0]), o)))
        # option references are substituted textually and the result is resolved again (confectioner's semantics: a
        # container value is inserted in its raw string form and templated strings inside it are resolved afterwards)
        out = s
        for r in refs:
            out = out.replace("{" + r + "}", str(val_of(r)))
        return finish(str(self.subst(out, o)))

    def e_tmpl(self, n, o):
        return self.template(n["s"], n["params"], o)

    def e_ref(self, n, o):
        return self.dataset(self.defs[n["name"]], o)

    def e_derived(self, n, o):
        d = self.defs[n["base"]]
        if n["op"] == "with_options":
            return self.dataset(d, o, extra_preset=n["opts"])
        return self.dataset(d, o, extra_default=n["opts"])

    def e_apply(self, n, o):
        fn = n["fn"]
        if "name" in fn:
            src = self.ev(n["src"], o)
            return self.user(lambda: sem.APPLY[fn["name"]](src))
        src, p = self.all_of([lambda: self.ev(n["src"], o), lambda: self.ev(fn["param"], o)])
        return self.user(lambda: sem.step_pair(src, p))

    def e_bind(self, n, o):
        v = self.choosing(lambda: self.ev(n["src"], o))
        table = {sem.typed(k): b for k, b in n["table"]}
        return self.ev(table.get(sem.typed(v), n["else"]), o)

    def e_switch(self, n, o):
        disp = {"k": "opt", "key": n["disp"]} if isinstance(n["disp"], str) else n["disp"]
        lookup = {}
        for v, b in n["lookup"]:
            lookup[v] = b
        mark = len(self.st.read_log)
        ok, v = self.attempt(lambda: self.choosing(lambda: self.ev(disp, o)))
        if not ok:
            if "default" in n and any(p for _, p in self.st.read_log[mark:]):
                # the dispatch failed after reading a *present* value; the default's keys do not
                # mention it (known finding K6, same mechanism as coalesce)
                self.absorbed_value_failure()
            if "default" in n:
                self.st.labels.add("switch-default-by-failure")
                return self.ev(n["default"], o)
            raise v
        if v in lookup:
            self.st.labels.add("switch-branch")
            return self.ev(lookup[v], o)
        if "default" in n:
            self.st.labels.add("switch-default-by-unknown")
            return self.ev(n["default"], o)
        self.st.chooser_failed = True
        raise RFail({("switch",)})

    def pred(self, p, value, o):
        if "arg" in p:
            arg = self.choosing(lambda: self.ev(p["arg"], o))
            self.st.labels.add("case-option-predicate" if p["arg"]["k"] == "opt" else "case-helper-predicate")
            return self.user(lambda: sem.HELPER_REF[p["p"]](value, arg))
        return self.user(lambda: sem.PREDS[p["p"]](value))

    def e_case(self, n, o):
        v = self.choosing(lambda: self.ev(n["disp"], o))
        for p, b in n["cases"]:
            if self.choosing(lambda: self.pred(p, v, o)):
                return self.ev(b, o)
        if "default" in n:
            self.st.labels.add("case-default")
            return self.ev(n["default"], o)
        self.st.chooser_failed = True
        raise RFail({("case",)})

    def e_coalesce(self, n, o):
        fails = set()
        absorbed_after_present_read = False
        for i, m in enumerate(n["members"]):
            mark = len(self.st.read_log)
            mark_t = len(self.st.touched)
            ok, v = self.attempt(lambda: self.ev(m, o))
            if ok:
                if i > 0:
                    self.st.labels.add("coalesce-fallthrough")
                if absorbed_after_present_read:
                    # an earlier member failed for a reason that depends on a *present* value and the failure was
                    # absorbed by this member's success (known finding K6)
                    self.absorbed_value_failure()
                return v
            self.st.failed_member_idx.update(range(mark_t, len(self.st.touched)))
            fails |= v.fails
            if any(f[0] == "exc" for f in v.fails):
                self.st.labels.add("coalesce-member-raised")   # known finding K2
            if any(f[0] != "missing" for f in v.fails) or any(p for _, p in self.st.read_log[mark:]):
                absorbed_after_present_read = True
        raise RFail(fails)

    def items(self, n, o):
        return self.all_of([(lambda i=i: self.ev(i, o)) for i in n["items"]])

    def e_list(self, n, o):
        return [sem.freeze(x) for x in self.items(n, o)]

    def e_tuple(self, n, o):
        return tuple(sem.freeze(x) for x in self.items(n, o))

    def e_iter(self, n, o):
        return sem.RefIter(self.items(n, o))

    def e_dclass(self, n, o):
        vals = self.all_of([(lambda m=m: self.ev(m["node"], o)) for m in n["members"]])
        self.st.labels.add("dataset-class")
        import json as _json
        self.st.dclass_nodes.add(_json.dumps(n, sort_keys=True, default=repr))
        return sem.DCValue({m["name"]: sem.freeze(v) for m, v in zip(n["members"], vals)})

    def e_dict(self, n, o):
        vals = self.all_of([(lambda v=v: self.ev(v, o)) for _, v in n["items"]])
        out = {}
        for (k, _), v in zip(n["items"], vals):
            out[k] = sem.freeze(v)
        return out

    def e_fapp(self, n, o):
        thunks = [(lambda a=a: self.ev(a, o)) for a in n["args"]] + [(lambda v=v: self.ev(v, o)) for v in n["kwargs"].values()]
        if "fn" in n:
            thunks.append(lambda: self.ev(n["fn"], o))
        vals = self.all_of(thunks)
        tag = "fapp"
        if "fn" in n:
            tag = "fapp" if sem.pick_first(vals.pop()) else "fapp-alt"
            self.st.labels.add("computed-function")
        a = vals[:len(n["args"])]
        kw = dict(zip(n["kwargs"].keys(), vals[len(n["args"]):]))
        return (tag, tuple(sem.freeze(x) for x in a), tuple(sorted((k, sem.typed(v)) for k, v in kw.items())))

    def e_map(self, n, o):
        import itertools
        its = self.choosing(lambda: self.all_of([(lambda it=it: self.ev(it, o)) for _, it in n["iters"]]))
        its = [self.user(lambda x=x: list(x.items) if isinstance(x, sem.RefIter) else list(x)) for x in its]
        keys = [k for k, _ in n["iters"]]
        out = []
        combos = list(itertools.product(*its))
        if len(combos) >= 2:
            self.st.labels.add("map>=2")
        if any("." in k for k in keys):
            self.st.labels.add("map-dotted-key")
        results = self.all_of([(lambda c=c: self.ev(n["body"], overlay(o, nest(dict(zip(keys, c)))))) for c in combos])
        for c, r in zip(combos, results):
            out.append((dict(zip(keys, c)), sem.freeze(r)))
        how = n["as"]
        if how == "raw":
            return sem.RefIter(out)
        if how == "list":
            return out
        vals = [r for _, r in out]
        return sem.RefIter(vals) if how == "values_raw" else vals

    def e_with(self, n, o):
        e = overlay(o, n["opts"]) if n["force"] else overlay(n["opts"], o)
        self.st.foreign_depth += 1
        try:
            return self.ev(n["body"], e)
        finally:
            self.st.foreign_depth -= 1

    def e_cached(self, n, o):
        self.cache_depth += 1
        try:
            return self.ev(n["body"], o)
        finally:
            self.cache_depth -= 1

    def absorbed_value_failure(self):
        """Known finding K6: the keys of the absorbing expression omit what the absorbed failure read. Outcomes of
        evaluate are affected only through the cache key of a cached consumer around it."""
        self.st.labels.add("coalesce-absorbed-value-failure")
        if self.cache_depth > 0:
            self.st.labels.add("absorbed-under-cache")

    def e_allopts(self, n, o):
        return self.subst(o, o)

    # -- datasets -------------------------------------------------------------------------------------
    def dataset(self, d, o, extra_preset=None, extra_default=None):
        if d["name"] in self.overrides:
            return self.overrides[d["name"]]
        defaults = d.get("default_options") or {}
        preset = d.get("options") or {}
        if extra_default is not None:
            defaults = overlay(defaults, extra_default)
        if extra_preset is not None:
            preset = overlay(preset, extra_preset)
        e = overlay(overlay(defaults, o), preset)
        if d.get("options") or extra_preset:
            self.st.labels.add("preset")
        if d.get("default_options") or extra_default:
            self.st.labels.add("default-options")
        self.st.visits.setdefault(d["name"], []).append(e)
        rec = [e, False]
        self.st.visit_ok.setdefault(d["name"], []).append(rec)
        cached_here = not d.get("nocache")
        self.cache_depth += cached_here
        try:
            v = self._dataset_inner(d, e)
        finally:
            self.cache_depth -= cached_here
        rec[1] = True
        return v

    def _dataset_inner(self, d, e):
        # every input of the dataset (dispatch, parameters, callback / effect parameters) must be
        # obtainable; a failure of any of them is a possible failure of the evaluation
        fails = set()
        steps = [("cb", s) for s in d.get("callback", [])]
        effects_on = d["name"] not in self.effects_disabled and not self.effects_off(e)
        if effects_on:
            steps += [("effect", s) for s in d.get("effects", [])]
        try:
            impl = self.choose(d, e)
            if impl is None:
                v = self.body(d, e)
            elif impl.get("k") == "ovfn":
                self.st.labels.add("overload-taken")
                orec = [e, False]
                self.st.visit_ok.setdefault(impl["name"], []).append(orec)
                v = self.body(impl, e)
                orec[1] = True
            else:
                self.st.labels.add("overload-taken")
                v = self.ev(impl, e)
        except RFail as f:
            fails |= f.fails
            for _, s in steps:
                if "param" in s:
                    try:
                        self.ev(s["param"], e)
                    except RFail as f2:
                        fails |= f2.fails
            raise RFail(fails)
        for kind, s in steps:
            self.st.labels.add("callback" if kind == "cb" else "effect")
            try:
                if kind == "cb":
                    v = self.step(s, "cb", v, e)
                else:
                    self.step(s, "effect", v, e)
            except RFail as f:
                # the parameters of every callback / effect step are inputs of the dataset too (they are part of its
                # keys): a failure of any of them is a possible failure of the evaluation
                fails |= f.fails
                for _, s2 in steps:
                    if "param" in s2:
                        try:
                            self.ev(s2["param"], e)
                        except RFail as f2:
                            fails |= f2.fails
                raise RFail(fails)
        return v

    def effects_off(self, e):
        v = dotted_get(e, "LABREA.EFFECTS.DISABLED")
        return v is not ABSENT and bool(v)

    def choose(self, d, e):
        """None -> default implementation (the body); else the overload implementation node."""
        lookup = {}
        for alias, impl in d.get("overloads", []):
            for a in sem.alias_list(alias):
                lookup[a] = impl
        abstract = d.get("abstract")
        if "dispatch" not in d:
            if abstract:
                self.st.chooser_failed = True
                raise RFail({("switch",)})
            return None
        disp = {"k": "opt", "key": d["dispatch"]} if isinstance(d["dispatch"], str) else d["dispatch"]
        mark = len(self.st.read_log)
        ok, v = self.attempt(lambda: self.choosing(lambda: self.ev(disp, e)))
        if not ok:
            if abstract:
                raise v
            if any(p for _, p in self.st.read_log[mark:]):
                self.absorbed_value_failure()
            self.st.labels.add("dispatch-failed-default")
            return None
        if v in lookup:
            return lookup[v]
        if abstract:
            self.st.chooser_failed = True
            raise RFail({("switch",)})
        return None

    def body(self, d, e):
        args = self.all_of([(lambda p=p: self.ev(p, e)) for p in d.get("params", [])])
        name = d["name"]
        self.st.touched.append(name)
        if self.st.chooser_depth:
            self.st.choosers.add(name)
        self.st.must.append(name)
        self.emit(("body", name))
        args = tuple(sem.freeze(a) for a in args)
        partial = d.get("partial")
        if partial and sem.PARTIAL_WHEN[partial["when"]](args):
            self.st.labels.add("partial-body-fired")
            raise RFail({("exc", partial["exc"])})
        if d["body"] == "first":
            return args[0]
        return (name,) + args

    def step(self, s, kind, x, e):
        has_p = "param" in s
        p = self.ev(s["param"], e) if has_p else None
        x = sem.freeze(x)
        raises = s.get("raises")
        if raises and (raises["when"] == "always" or (raises["when"] == "value_has_none" and "None" in sem.typed(x))):
            self.st.labels.add(kind + "-raised")
            raise RFail({("exc", raises["exc"])})
        if kind == "cb":
            self.emit(("cb", s["name"]))
            return ("cb", s["name"], x, sem.freeze(p)) if has_p else ("cb", s["name"], x)
        self.emit(("effect", s["name"], sem.typed(x), sem.typed(p) if has_p else None))
        return None
