from vlib.harness import entry

entry()
