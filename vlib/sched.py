"""Harness-owned deterministic scheduler for real threads (C15).

Worker threads run one at a time ("baton"). Inside traced code (labrea/runtime.py, overload.py, cache.py) every
line -- and for selected functions every bytecode -- is a yield point at which the schedule may hand the baton
to another thread. labrea's module-level locks are replaced by scheduler-aware locks (module attributes are
patched, no repository change), so a thread that would block reports "blocked" to the scheduler instead of
blocking the process.

A schedule is a dict {yield point index -> thread index}: at that global yield point the running thread is
preempted in favour of the named thread (if it is runnable). Without an entry the running thread continues; when
a thread finishes or blocks, the lowest-index runnable thread continues. Runs are therefore a pure function of
(programs, schedule).
"""
from __future__ import annotations

import os
import sys
import threading

OPCODE_FUNCS = {"register", "__enter__", "__exit__", "inherit", "current_runtime", "get", "set", "exists", "evaluate",
                "handle_by_default", "_get_lock"}


class Deadlock(Exception):
    pass


class SchedLock:
    """Drop-in for threading.Lock under the scheduler."""

    def __init__(self, sched):
        self.sched = sched
        self.owner = None

    def acquire(self, blocking=True, timeout=-1):
        me = threading.get_ident()
        s = self.sched
        if not s.active or me not in s.index:
            # outside a scheduled run: behave like an uncontended lock
            self.owner = me
            return True
        while self.owner is not None and self.owner != me:
            s.block(self)
        self.owner = me
        return True

    def release(self):
        self.owner = None
        if self.sched.active:
            self.sched.unblock(self)

    def locked(self):
        return self.owner is not None

    def __enter__(self):
        self.acquire()
        return self

    def __exit__(self, *a):
        self.release()


class Scheduler:
    def __init__(self, traced_files, opcode_level=True, max_steps=20000):
        self.traced = tuple(traced_files)
        self.opcode_level = opcode_level
        self.max_steps = max_steps
        self.active = False
        self.index = {}

    # ---- public -------------------------------------------------------------------------------------------------
    def run(self, programs, schedule):
        """programs: list of callables (one per thread); schedule: {yield index: thread index}.
        Returns (results, steps, trace) where results[i] is the callable's return value or the exception raised."""
        n = len(programs)
        self.schedule = dict(schedule)
        self.step = 0
        self.events = [threading.Event() for _ in range(n)]
        self.done = [False] * n
        self.blocked = [None] * n
        self.results = [None] * n
        self.current = 0
        self.index = {}
        self.trace_log = []
        self.error = None
        self.threads = []
        self.active = True
        self.preemptions_taken = 0

        def worker(i):
            self.index[threading.get_ident()] = i
            self.events[i].wait()
            self.events[i].clear()
            sys.settrace(self._trace)
            try:
                self.results[i] = ("ok", programs[i]())
            except BaseException as e:  # noqa
                self.results[i] = ("exc", e)
            finally:
                sys.settrace(None)
                self.done[i] = True
                self._handoff(i)

        self.threads = [threading.Thread(target=worker, args=(i,), name=f"sched-{i}") for i in range(n)]
        for t in self.threads:
            t.start()
        # wait until all registered, then start thread 0
        while len(self.index) < n:
            pass
        self.events[0].set()
        for t in self.threads:
            t.join(timeout=20)
            if t.is_alive():
                self.error = "worker did not finish (deadlock or runaway)"
        self.active = False
        if self.error:
            # release everybody so that threads can exit
            for e in self.events:
                e.set()
            raise Deadlock(self.error)
        return self.results, self.step

    # ---- internals ----------------------------------------------------------------------------------------------
    def _runnable(self, j):
        return not self.done[j] and (self.blocked[j] is None or self.blocked[j].owner is None)

    def _handoff(self, i):
        """Thread i finished: continue the lowest-index runnable thread."""
        for j in range(len(self.done)):
            if j != i and self._runnable(j):
                self.blocked[j] = None
                self.current = j
                self.events[j].set()
                return
        if not all(self.done):
            self.error = "all remaining threads are blocked"
            for e in self.events:
                e.set()

    def _switch(self, i, j):
        self.current = j
        self.blocked[j] = None
        self.events[j].set()
        self.events[i].wait()
        self.events[i].clear()
        if self.error:
            raise Deadlock(self.error)

    def yield_point(self):
        i = self.index.get(threading.get_ident())
        if i is None or not self.active or i != self.current:
            return
        k = self.step
        self.step += 1
        if self.step > self.max_steps:
            self.error = "step budget exceeded"
            for e in self.events:
                e.set()
            raise Deadlock(self.error)
        j = self.schedule.get(k)
        if j is not None and j != i and j < len(self.done) and self._runnable(j):
            self.preemptions_taken += 1
            self._switch(i, j)

    def block(self, lock):
        i = self.index[threading.get_ident()]
        self.blocked[i] = lock
        for j in range(len(self.done)):
            if j != i and self._runnable(j):
                self._switch(i, j)
                return
        self.error = "deadlock: every thread is blocked on a lock"
        for e in self.events:
            e.set()
        raise Deadlock(self.error)

    def unblock(self, lock):
        pass  # blocked threads re-check the owner when they are scheduled again

    def _trace(self, frame, event, arg):
        fn = frame.f_code.co_filename
        if not fn.endswith(self.traced):
            return None
        if self.opcode_level and frame.f_code.co_name in OPCODE_FUNCS:
            frame.f_trace_opcodes = True
        return self._local

    def _local(self, frame, event, arg):
        if event == "line" or event == "opcode":
            self.yield_point()
        return self._local


def patch_locks(sched):
    """Replace labrea's locks with scheduler-aware ones. Only names that exist are patched (the lock layout is an
    implementation detail), and `threading` as seen from the traced modules is shimmed so that locks created on the
    fly are scheduler-aware too. Returns an undo function."""
    import labrea.overload as ov
    import labrea.runtime as rt
    undo_list = []

    def swap(mod, name, value):
        if hasattr(mod, name):
            old = getattr(mod, name)
            setattr(mod, name, value)
            undo_list.append((mod, name, old))

    if isinstance(getattr(rt, "lock", None), type(threading.Lock())):
        swap(rt, "lock", SchedLock(sched))
    if isinstance(getattr(ov, "_MODULE_LOCK", None), type(threading.Lock())):
        swap(ov, "_MODULE_LOCK", SchedLock(sched))
    if callable(getattr(ov, "_get_lock", None)):
        locks = {}
        module_lock = SchedLock(sched)

        def _get_lock(x):
            with module_lock:
                return locks.setdefault(x, SchedLock(sched))

        swap(ov, "_get_lock", _get_lock)

    class _Threading:
        def __getattr__(self_, name):
            return getattr(threading, name)

        @staticmethod
        def Lock():
            return SchedLock(sched)

        RLock = Lock

    shim = _Threading()
    for mod in (ov, rt):
        if getattr(mod, "threading", None) is threading:
            swap(mod, "threading", shim)

    def undo():
        for mod, name, old in reversed(undo_list):
            setattr(mod, name, old)

    return undo
