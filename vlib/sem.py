"""User-level callables shared by the builder (real labrea) and the reference interpreter.

These are *user code* (bodies, predicates, applied functions), not labrea semantics, so sharing
them does not make the oracle depend on the implementation.
"""
from __future__ import annotations

import types as _types


class CustomError(Exception):
    pass


EXC = {
    "ValueError": ValueError, "TypeError": TypeError, "KeyError": KeyError, "IndexError": IndexError,
    "ZeroDivisionError": ZeroDivisionError, "AssertionError": AssertionError, "RuntimeError": RuntimeError,
    "LookupError": LookupError, "CustomError": CustomError,
}


class RefIter:
    """What the reference interpreter produces where labrea produces a lazy iterable."""

    def __init__(self, items):
        self.items = list(items)


def is_lazy(x):
    return isinstance(x, (_types.GeneratorType, map, filter, zip)) or (
        hasattr(x, "__next__") and hasattr(x, "__iter__"))


class DCValue:
    """Reference-side value of a dataset-class instance: member name -> value."""

    def __init__(self, members):
        self.members = dict(members)


def freeze(x):
    """Consume lazy iterables (recursively) into tagged tuples; bodies call this on their arguments
    like any real body would consume its inputs."""
    if isinstance(x, DCValue):
        return ("<dataset-class-instance>",) + tuple((nm, freeze(v)) for nm, v in sorted(x.members.items()))
    names = getattr(type(x), "__vlib_members__", None)
    if names is not None:
        # an instance of a generated dataset class: its members' values are what it is
        return ("<dataset-class-instance>",) + tuple((nm, freeze(getattr(x, nm))) for nm in sorted(names))
    if isinstance(x, RefIter):
        return ("<iter>",) + tuple(freeze(i) for i in x.items)
    if is_lazy(x):
        return ("<iter>",) + tuple(freeze(i) for i in x)
    if isinstance(x, tuple):
        return tuple(freeze(i) for i in x)
    if isinstance(x, list):
        return [freeze(i) for i in x]
    if isinstance(x, dict):
        return {k: freeze(v) for k, v in x.items()}
    return x


def typed(x):
    """Type-faithful canonical string of a (materialised) value: True != 1, [1] != (1,)."""
    x = freeze(x)
    return _typed(x)


def _typed(x):
    if isinstance(x, tuple):
        return "(" + ",".join(_typed(i) for i in x) + ",)"
    if isinstance(x, list):
        return "[" + ",".join(_typed(i) for i in x) + "]"
    if isinstance(x, dict):
        # dicts compare like Python dicts: insertion order is not part of the value
        return "{" + ",".join(sorted(f"{_typed(k)}:{_typed(v)}" for k, v in x.items())) + "}"
    if isinstance(x, (set, frozenset)):
        return "set{" + ",".join(sorted(_typed(i) for i in x)) + "}"
    return f"{type(x).__name__}:{x!r}"


# ---- functions for apply ------------------------------------------------------------------------
def f_wrap(x):
    return ("w", freeze(x))


def f_tostr(x):
    return "s:" + typed(x)


def f_isnone(x):
    return x is None


def f_pairself(x):
    x = freeze(x)
    return [x, x]


def f_boomnone(x):
    if x is None:
        raise CustomError("apply:boomnone")
    return ("b", freeze(x))


APPLY = {"wrap": f_wrap, "tostr": f_tostr, "isnone": f_isnone, "pairself": f_pairself, "boomnone": f_boomnone}


def step_pair(x, p):
    return ("pair", freeze(x), freeze(p))


# ---- predicates -----------------------------------------------------------------------------------
def p_is_none(x):
    return x is None


def p_truthy(x):
    return bool(x)


def p_is_str(x):
    return isinstance(x, str)


def p_lt1(x):
    return x < 1  # TypeError on None / str / list: a declared-partial predicate


def p_not_none(x):
    return x is not None


def p_any(x):
    return True


PREDS = {"is_none": p_is_none, "truthy": p_truthy, "is_str": p_is_str, "lt1": p_lt1, "not_none": p_not_none, "any": p_any}

# helper predicates: python reference semantics with the documented operand order (input OP parameter)
HELPER_REF = {
    "eq": lambda x, v: x == v,
    "ne": lambda x, v: x != v,
    "gt": lambda x, v: x > v,
    "le": lambda x, v: x <= v,
    "is_in": lambda x, c: x in c,
    "one_of": lambda x, v: x in (v,),
    "anyarg": lambda x, v: True,
}

PARTIAL_WHEN = {
    "any_none": lambda args: any(a is None for a in args),
    "first_falsy": lambda args: bool(args) and not args[0],
    "any_str": lambda args: any(isinstance(a, str) for a in args),
}


def alias_value(a):
    """Spec aliases are JSON: {"tuple": [...]} stands for a tuple-valued alias (one composite dispatch value)."""
    if isinstance(a, dict) and set(a) == {"tuple"}:
        return tuple(alias_value(x) for x in a["tuple"])
    return a


def alias_arg(alias):
    """What user code passes to overload(...): a list of aliases stays a list, a tuple alias is ONE alias."""
    return [alias_value(a) for a in alias] if isinstance(alias, list) else alias_value(alias)


def alias_list(alias):
    return [alias_value(a) for a in alias] if isinstance(alias, list) else [alias_value(alias)]


def pick_first(v):
    """Which of two functions a computed-function application uses (any total, deterministic rule will do)."""
    return v is None or v is False or v == 0 or v == "a"
