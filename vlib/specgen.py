"""Hypothesis strategies producing program specs (JSON ASTs over labrea's public combinators).

spec = {"defs": [dataset-def, ...], "root": node}

See build.py (real labrea objects) and ref.py (independent reference interpreter) for the two
interpretations of a spec.
"""
from __future__ import annotations

from hypothesis import strategies as st

from . import universe as U

APPLY_FNS = ["wrap", "tostr", "isnone", "pairself"]
PY_PREDS = ["is_none", "truthy", "is_str", "lt1"]          # lt1 raises TypeError on non-numbers
HELPER_PREDS = ["eq", "ne", "gt", "le", "is_in", "one_of"]  # labrea.functions helpers, parameter may be an option
EXC_TYPES = ["ValueError", "TypeError", "KeyError", "IndexError", "ZeroDivisionError", "AssertionError",
             "RuntimeError", "LookupError", "CustomError"]

DEFAULT_PROFILE = dict(
    max_defs=4,
    depth=3,
    templates=True,        # templated Option defaults / Template nodes
    partial=False,         # declared-partial bodies
    effects=True,
    effect_option_params=True,
    callbacks=True,
    presets=True,
    overloads=True,
    maps=True,
    domains=True,
    derived=True,
    lazy_root=True,
    nocache=True,
    allopts=False,
    case_option_preds=True,
    coalesce=True,
    cached_nodes=True,
    binds=True,
    dclass=True,           # dataset classes as nodes (instances are values; not generated in picklable programs)
    weights=None,
)


def profile(**kw):
    p = dict(DEFAULT_PROFILE)
    p.update(kw)
    return p


class _G:
    def __init__(self, draw, prof):
        self.draw = draw
        self.p = prof
        self.defs = []  # finished defs (names usable in refs)
        self.counter = 0

    # -- helpers ---------------------------------------------------------------------------------
    def pick(self, xs):
        return self.draw(st.sampled_from(xs))

    def chance(self, p):
        # uniform index (st.floats / st.integers over-weight boundary values); shrinks towards False
        return self.draw(st.sampled_from(range(200))) >= 200 * (1 - p)

    def small_opts(self):
        """A small pre-set / default options dictionary (nested, overlapping the universe)."""
        n = self.draw(st.integers(1, 3))
        flat = {}
        for _ in range(n):
            k = self.pick(U.VALUE_KEYS + U.DISPATCH_KEYS + [U.THRESH])
            if k in U.DISPATCH_KEYS:
                flat[k] = self.pick(U.HASHABLE_DISPATCH)
            elif k == U.THRESH:
                flat[k] = self.pick(U.THRESH_VALUES)
            else:
                flat[k] = self.draw(U.leaf_value(k, self.p["templates"]))
        return U.nest(flat)

    # -- leaves ----------------------------------------------------------------------------------
    def opt(self, hashable=False, keys=None):
        if keys is None:
            keys = U.DISPATCH_KEYS + [U.THRESH] if hashable else U.OPTION_KEYS
        key = self.pick(keys)
        node = {"k": "opt", "key": key}
        r = self.draw(st.integers(0, 9))
        if r <= 4:
            pass
        elif r == 5:
            node["default"] = {"t": "const", "v": self.pick(U.HASHABLE_DISPATCH if hashable else U.SCALARS + [[1], [], {"q": [1], "r": {"s": 1}}, [[1], [2]]])}
        elif r == 6 and self.p["templates"] and not hashable:
            node["default"] = {"t": "tmpl", "s": self.tmpl_text(params=False)}
        elif r == 7:
            node["default"] = {"t": "factory", "v": self.pick(U.HASHABLE_DISPATCH if hashable else U.SCALARS + [[1]])}
            if self.p.get("faults") and self.chance(0.2):
                node["default"]["raises"] = self.pick(EXC_TYPES)
        elif r >= 8:
            node["default"] = {"t": "node", "n": self.opt(hashable) if self.chance(0.7) else self.leaf(hashable)}
        if self.p.get("domain_always_true") and self.chance(self.p["domain_always_true"]):
            # a declared domain that every value satisfies (keeps "values lie in their declared domains" true)
            node["domain"] = {"t": "pred", "p": "any"}
            if self.chance(0.4):
                # ... or an always-true domain that is itself an expression over another option (validate, keys and
                # evaluate must all need that option; seeded change C10-agent6), often next to a constant default
                node["domain"] = {"t": "step", "p": "anyarg", "arg": {"k": "opt", "key": self.pick(["B", "T", "L"])}}
                if self.chance(0.5):
                    node["default"] = {"t": "const", "v": self.pick([0, 1, None, [1]])}
            pool = [d for d in self.defs if not hashable or d["body"] == "first"]
            if pool and self.chance(0.5):
                # ... next to a default that has a body of its own (checking the domain must not need the default's value
                # while the key is present, nor run its body during validation)
                node["default"] = {"t": "node", "n": {"k": "ref", "name": self.pick(pool)["name"]}}
        elif self.p["domains"] and self.chance(self.p.get("domain_rate", 0.025)):
            d = self.draw(st.integers(0, 1 if self.p.get("picklable") else 2))
            if d == 0:
                node["domain"] = {"t": "container", "v": self.draw(st.lists(st.sampled_from(U.HASHABLE_DISPATCH), min_size=1, max_size=5))}
            elif d == 1:
                node["domain"] = {"t": "pred", "p": self.pick(["is_none", "truthy", "is_str", "not_none"] + (["lt1"] if self.p.get("faults") else []))}
            else:
                node["domain"] = {"t": "step", "p": self.pick(["eq", "ne", "is_in"]),
                                  "arg": {"k": "opt", "key": self.pick(["B", "T", "L"])}}
        return node

    def tmpl_text(self, params):
        parts = []
        n = self.draw(st.integers(1, 3))
        has_ref = False
        for _ in range(n):
            kind = self.pick(["lit", "ref", "ref", "esc"] + (["param"] if params else []))
            if kind == "lit":
                parts.append(self.pick(["x", "-", " ", "ab"]))
            elif kind == "ref":
                parts.append("{%s}" % self.pick(U.FLAT + ["S.X", "R.U.V", "T"]))
                has_ref = True
            elif kind == "esc":
                parts.append("\\{e\\}")
            else:
                parts.append("{:p%d:}" % self.draw(st.integers(0, 1)))
        return "".join(parts)

    def tmpl(self, depth):
        s = self.tmpl_text(params=True)
        params = {}
        for name in ("p0", "p1"):
            if "{:%s:}" % name in s:
                params[name] = self.node(max(depth - 1, 0), hashable=True)
        return {"k": "tmpl", "s": s, "params": params}

    def leaf(self, hashable=False):
        r = self.draw(st.integers(0, 9))
        if r == 0:
            return {"k": "val", "v": self.pick(U.HASHABLE_DISPATCH if hashable else U.SCALARS + [[1], ["a", "b"]])}
        if r <= 4 and self.defs:
            d = self.pick([d for d in self.defs if not hashable or d["body"] == "first"] or [None])
            if d is not None:
                return {"k": "ref", "name": d["name"]}
        return self.opt(hashable)

    # -- inner nodes -----------------------------------------------------------------------------
    def node(self, depth, hashable=False, lazy_ok=False):
        if depth <= 0:
            return self.leaf(hashable)
        kinds = ["leaf", "apply", "switch", "switch", "case", "list", "tuple", "with", "ref", "ref"]
        if self.p["coalesce"]:
            kinds += ["coalesce", "coalesce"]
        if self.p["binds"]:
            kinds += ["bind"]
        if self.p["cached_nodes"]:
            kinds += ["cached"]
        if not hashable:
            kinds += ["dict", "fapp"]
            if self.p.get("dclass") and not self.p.get("picklable"):
                kinds += ["dclass"]
            if self.p["templates"]:
                kinds += ["tmpl"]
            if self.p["maps"]:
                kinds += ["map"] * self.p.get("map_weight", 2)
            if self.p["derived"] and self.defs:
                kinds += ["derived"]
            if lazy_ok:
                kinds += ["iter"]
            if self.p["allopts"]:
                kinds += ["allopts"]
        else:
            kinds += ["set"] if False else []
        k = self.pick(kinds)
        d = depth - 1
        if k == "leaf" or (k == "ref" and not self.defs):
            return self.leaf(hashable)
        if k == "ref":
            return self.leaf(hashable) if hashable else {"k": "ref", "name": self.pick(self.defs)["name"]}
        if k == "apply":
            if self.chance(0.6) or hashable:
                fn = {"name": self.pick(["isnone", "tostr"] if hashable else APPLY_FNS + (["boomnone"] if self.p.get("faults") else []))}
            else:
                fn = {"step": "pair", "param": self.node(0, hashable=False)}
                if len(self.defs) >= 2 and self.chance(self.p.get("apply_refs", 0.25)):
                    # input and step parameter both produced by datasets: the order of production is observable
                    a, b = self.draw(st.permutations(self.defs))[:2]
                    fn["param"] = {"k": "ref", "name": b["name"]}
                    return {"k": "apply", "src": {"k": "ref", "name": a["name"]}, "fn": fn}
            return {"k": "apply", "src": self.node(d, hashable, lazy_ok=False), "fn": fn}
        if k == "bind":
            src = self.node(d, hashable=True)
            table = [[self.pick(U.HASHABLE_DISPATCH), self.node(d, hashable)] for _ in range(self.draw(st.integers(1, 2)))]
            return {"k": "bind", "src": src, "table": table, "else": self.node(d, hashable)}
        if k == "switch":
            disp = self.pick(U.DISPATCH_KEYS) if self.chance(0.4) else self.node(d, hashable=True)
            lookup = [[self.pick(U.HASHABLE_DISPATCH), self.node(d, hashable)] for _ in range(self.draw(st.integers(1, 3)))]
            node = {"k": "switch", "disp": disp, "lookup": lookup}
            if self.chance(0.55):
                node["default"] = self.node(d, hashable)
            return node
        if k == "case":
            disp = self.node(d, hashable=self.chance(0.7))
            cases = []
            for _ in range(self.draw(st.integers(1, 3))):
                if self.p["case_option_preds"] and self.chance(0.5):
                    p = self.pick(["eq", "ne", "is_in", "one_of"] if self.p.get("total_preds") else HELPER_PREDS)
                    if p in ("is_in",):
                        arg = self.pick([{"k": "opt", "key": "L"}, {"k": "val", "v": [0, 1, "a", None]}])
                    elif p == "one_of":
                        arg = {"k": "opt", "key": self.pick(["B", "T"])}
                    else:
                        arg = self.pick([{"k": "opt", "key": "T"}, {"k": "opt", "key": "B"}, {"k": "val", "v": 1},
                                         {"k": "opt", "key": "T", "default": {"t": "const", "v": 1}}])
                    pred = {"p": p, "arg": arg}
                else:
                    pred = {"p": self.pick(["is_none", "truthy", "is_str"] if self.p.get("total_preds") else PY_PREDS)}
                cases.append([pred, self.node(d, hashable)])
            node = {"k": "case", "disp": disp, "cases": cases}
            if self.chance(0.6):
                node["default"] = self.node(d, hashable)
            return node
        if k == "coalesce":
            lazy_members = lazy_ok and self.p.get("lazy_in_coalesce")
            return {"k": "coalesce", "members": [self.node(d, hashable, lazy_ok=lazy_members) for _ in range(self.draw(st.integers(2, 3)))]}
        if k in ("list", "tuple", "iter"):
            items = [self.node(d, hashable) for _ in range(self.draw(st.integers(0, 3)))]
            if hashable and k != "tuple":
                k = "tuple"
            return {"k": k, "items": items}
        if k == "dclass":
            # a dataset class: members under public and single-underscore names, annotated or not, own or inherited from
            # a plain base class; evaluating it gives an instance whose attributes are the members' evaluations
            names = self.draw(st.lists(st.sampled_from(["a", "b", "c", "_p"]), min_size=1, max_size=3, unique=True))
            def member_node():
                if self.chance(0.2):
                    # a dataset class nested in a dataset class
                    inner = self.draw(st.lists(st.sampled_from(["a", "b", "_p"]), min_size=1, max_size=2, unique=True))
                    return {"k": "dclass", "members": [{"name": nm, "node": self.leaf(False), "annotated": self.chance(0.6), "inherited": False} for nm in inner]}
                return self.node(d) if self.chance(0.6) else self.leaf(False)
            return {"k": "dclass", "members": [{"name": nm, "node": member_node(), "annotated": self.chance(0.6), "inherited": self.chance(0.25)} for nm in names]}
        if k == "dict":
            n = self.draw(st.integers(0, 3))
            keys = self.draw(st.lists(st.sampled_from(["x", "y", 1, None, 0]), min_size=n, max_size=n, unique_by=lambda v: (type(v).__name__, v)))
            return {"k": "dict", "items": [[kk, self.node(d)] for kk in keys]}
        if k == "fapp":
            node = {"k": "fapp", "args": [self.node(d, lazy_ok=self.p["lazy_root"]) for _ in range(self.draw(st.integers(0, 2)))],
                    "kwargs": {nm: self.node(d) for nm in self.draw(st.lists(st.sampled_from(["u", "v"]), max_size=2, unique=True))}}
            if not self.p.get("picklable") and self.chance(0.3):
                # the applied function is itself computed from the options (its options belong to the application)
                node["fn"] = self.opt(hashable=True) if self.chance(0.7) else self.node(1, hashable=True)
            return node
        if k == "tmpl":
            return self.tmpl(depth)
        if k == "map" and self.chance(0.35):
            # the body picks a branch from the mapped key, and the branches need different options
            key = self.pick(["K", "T"])
            vals = self.draw(st.lists(st.sampled_from(U.HASHABLE_DISPATCH if key == "K" else U.THRESH_VALUES), min_size=2, max_size=3,
                                      unique_by=lambda v: (type(v).__name__, v)))
            lookup = [[v, self.opt(keys=U.FLAT + ["S.X", "R.U.V"]) if self.chance(0.8) else self.node(0)] for v in vals]
            sw = {"k": "switch", "disp": key, "lookup": lookup}
            if self.chance(0.4):
                sw["default"] = self.node(0)
            body = {"k": "tuple", "items": [sw, self.node(d - 1 if d > 0 else 0)]} if self.chance(0.4) else sw
            how = self.pick((["list"] if self.p.get("picklable") else ["list", "values_list"]) + (["raw", "values_raw"] if lazy_ok else []))
            return {"k": "map", "body": body, "iters": [[key, {"k": "val", "v": vals}]], "as": how}
        if k == "map":
            iters = []
            for key in self.draw(st.lists(st.sampled_from(["A", "B", "K", "S.X", "S.Y", "T"]), min_size=1, max_size=2, unique=True)):
                src = self.pick(["val", "val", "optL", "list"])
                if src == "val":
                    it = {"k": "val", "v": self.draw(st.lists(st.sampled_from(U.HASHABLE_DISPATCH), max_size=3, unique_by=lambda v: (type(v).__name__, v)))}
                elif src == "optL":
                    it = {"k": "opt", "key": "L"}
                else:
                    it = {"k": "list", "items": [self.node(0, hashable=True) for _ in range(self.draw(st.integers(0, 2)))]}
                iters.append([key, it])
            how = self.pick((["list"] if self.p.get("picklable") else ["list", "values_list"]) + (["raw", "values_raw"] if lazy_ok else []))
            body = self.node(d)
            r = self.draw(st.sampled_from(range(10)))
            # (only keys whose values are hashable scalars may serve as a dispatch)
            const_iters = [(k, it) for k, it in iters if it["k"] == "val" and len(it["v"]) >= 2 and k in ("K", "T")]
            if r <= 3 and const_iters:
                # the body picks a branch from the mapped key, and the branches need different options
                k, it = self.pick(const_iters)
                lookup = [[v, self.opt(keys=U.FLAT + ["S.X", "R.U.V", "T"]) if self.chance(0.8) else self.node(0)] for v in it["v"][:3]]
                sw = {"k": "switch", "disp": k, "lookup": lookup}
                if self.chance(0.5):
                    sw["default"] = self.node(0)
                body = {"k": "tuple", "items": [sw, body]} if self.chance(0.5) else sw
            elif r <= 7:
                # the body reads (at least) one of the keys the Map assigns
                body = {"k": "tuple", "items": [{"k": "opt", "key": self.pick([k for k, _ in iters])}, body]}
            return {"k": "map", "body": body, "iters": iters, "as": how}
        if k == "with":
            return {"k": "with", "body": self.node(d, hashable), "opts": self.small_opts(), "force": self.chance(0.5)}
        if k == "cached":
            return {"k": "cached", "body": self.node(d, hashable)}
        if k == "derived":
            base = self.pick(self.defs)
            if hashable and base["body"] != "first":
                return self.leaf(hashable)
            return {"k": "derived", "base": base["name"], "op": self.pick(["with_options", "with_default_options"]),
                    "opts": self.small_opts()}
        if k == "allopts":
            return {"k": "allopts"}
        return self.leaf(hashable)

    # -- datasets --------------------------------------------------------------------------------
    def step_spec(self, prefix):
        self.counter += 1
        s = {"name": f"{prefix}{self.counter}"}
        if self.chance(0.5):
            s["param"] = self.opt(keys=["B", "C", "T", "S.Y", "E"])
        if self.p.get("faults") and self.chance(0.3):
            s["raises"] = {"exc": self.pick(EXC_TYPES), "when": self.pick(["always", "value_has_none", "value_has_none"])}
        return s

    def dataset_def(self, idx, hashable=False):
        name = f"d{idx}"
        d = {"name": name, "body": "first" if hashable else "tag"}
        nparams = self.draw(st.integers(1, 2)) if hashable else self.draw(st.integers(0, 3))
        d["params"] = [self.node(self.draw(st.integers(0, self.p["depth"])), hashable=hashable,
                                 lazy_ok=self.p["lazy_root"] and not hashable) for _ in range(nparams)]
        d["form"] = self.pick(["decorator", "explicit", "where"])
        if self.p["overloads"] and self.chance(0.45):
            d["dispatch"] = self.pick(U.DISPATCH_KEYS) if self.chance(0.6) else self.node(1, hashable=True)
            composite = self.chance(self.p.get("tuple_dispatch", 0.12))
            if composite:
                # a composite dispatch value: a tuple of two options; aliases are tuples (each ONE alias)
                d["dispatch"] = {"k": "tuple", "items": [{"k": "opt", "key": "K", "default": {"t": "const", "v": 0}},
                                                         {"k": "opt", "key": "R.K", "default": {"t": "const", "v": "a"}}]}
            ovs = []
            for i in range(self.draw(st.integers(1 if composite else 0, 3))):
                alias = self.pick(U.HASHABLE_DISPATCH)
                if composite:
                    alias = {"tuple": [self.pick([0, 0, 1, "a", None]), self.pick(["a", "a", "b", 1])]}
                    if self.chance(0.25):
                        alias = [alias, {"tuple": [self.pick([0, 1, "a", None]), self.pick(["a", "b", 1])]}]
                elif self.chance(0.25):
                    alias = [alias, self.pick(U.HASHABLE_DISPATCH)]
                if self.chance(0.5):
                    impl = {"k": "ovfn", "name": f"{name}_o{i}",
                            "params": [self.node(1, hashable) for _ in range(self.draw(st.integers(0, 2)))],
                            "body": "first" if hashable else "tag"}
                    if hashable and not impl["params"]:
                        impl["params"] = [self.node(1, hashable)]
                else:
                    impl = self.node(1, hashable)
                ovs.append([alias, impl])
            if isinstance(d["dispatch"], str) and not hashable and self.chance(self.p.get("self_overload", 0.12)):
                # an overload computed from the dataset it overloads: the same dataset with the dispatch pinned to an
                # unregistered value (so it takes the default implementation); the object graph is cyclic
                own = {"k": "derived", "base": name, "op": "with_options", "opts": U.nest({d["dispatch"]: "__default__"})}
                if self.chance(0.6):
                    own = {"k": "tuple", "items": [own, {"k": "val", "v": "via-overload"}]}   # distinguishable from the default
                ovs.append([self.pick(["a", "b", 2]), own])
            d["overloads"] = ovs
            if ovs and self.chance(0.12):
                d["abstract"] = True
        if self.p["presets"] and self.chance(0.3):
            d["options"] = self.small_opts()
        if self.p["presets"] and self.chance(0.3):
            d["default_options"] = self.small_opts()
        if self.p["callbacks"] and not hashable and self.chance(0.3):
            d["callback"] = [self.step_spec("cb") for _ in range(self.draw(st.integers(1, 2)))]
        if self.p["effects"] and self.chance(0.3):
            effs = []
            for _ in range(self.draw(st.integers(1, 2))):
                e = self.step_spec("ef")
                if not self.p["effect_option_params"]:
                    e.pop("param", None)
                e["kind"] = self.pick(["fn", "step", "cls"]) if "param" not in e else "step"
                effs.append(e)
            d["effects"] = effs
        if self.p["nocache"] and self.chance(0.15):
            d["nocache"] = True
        if self.p["partial"] and self.chance(0.35):
            d["partial"] = {"when": self.pick(["any_none", "first_falsy", "any_str"]), "exc": self.pick(EXC_TYPES)}
        if not self.p.get("picklable") and d["form"] in ("decorator", "where") and self.chance(self.p.get("shared_factory", 0.3)) and not any(
                d.get(k) for k in ("dispatch", "options", "default_options", "callback", "effects", "abstract", "nocache", "overloads")):
            # made by ONE stored factory object configured with a cache class (memo = dataset(cache=MemoryCache)); every
            # dataset it makes still has a cache of its own
            d["shared_factory"] = True
            earlier = [x for x in self.defs if x.get("shared_factory") and x["body"] == d["body"]]
            if earlier and self.chance(0.6):
                # two datasets of the factory that depend on exactly the same options
                import copy as _copy
                d["params"] = _copy.deepcopy(self.pick(earlier)["params"])
        return d

    def spec(self):
        ndefs = self.draw(st.integers(1, self.p["max_defs"]))
        for i in range(ndefs):
            hashable = self.chance(0.25)
            self.defs.append(self.dataset_def(i, hashable))
        root = self.node(self.p["depth"], lazy_ok=self.p["lazy_root"])
        used = set()
        walk(root, lambda n: used.add(n.get("name") or n.get("base")) if n["k"] in ("ref", "derived") else None)
        if not used and self.chance(0.8):
            # make sure most programs actually reach a dataset
            root = {"k": "tuple", "items": [root, {"k": "ref", "name": self.defs[-1]["name"]}]}
        if not self.p.get("picklable") and self.p.get("memo_family", True) and self.chance(0.1):
            # two plain datasets made by ONE stored factory object configured with a cache class, depending on exactly the
            # same options, both reached by the program: each has a cache of its own
            import copy as _copy
            params = [self.leaf(False) for _ in range(self.draw(st.integers(0, 2)))]
            twins = []
            for _ in range(2):
                nm = f"d{len(self.defs)}"
                self.defs.append({"name": nm, "body": "tag", "params": _copy.deepcopy(params), "form": self.pick(["decorator", "where"]), "shared_factory": True})
                twins.append({"k": "ref", "name": nm})
            root = {"k": "tuple", "items": [root] + twins}
        return {"defs": self.defs, "root": root}


@st.composite
def specs(draw, prof=None):
    return _G(draw, prof or DEFAULT_PROFILE).spec()


# ---- static analysis helpers over specs -------------------------------------------------------
def walk(node, f):
    """Call f(node) on every node dict reachable (pre-order)."""
    if isinstance(node, dict):
        if "k" in node:
            f(node)
        for v in node.values():
            walk(v, f)
    elif isinstance(node, list):
        for v in node:
            walk(v, f)


def kinds_in(spec):
    out = set()
    walk(spec, lambda n: out.add(n["k"]))
    return out


def mentioned_keys(spec):
    """All option keys a spec mentions statically (Option keys, switch key strings, dispatch strings,
    template references, preset dictionaries are *not* included)."""
    import re
    out = set()

    def f(n):
        if n["k"] == "opt":
            out.add(n["key"])
            if n.get("default", {}).get("t") == "tmpl":
                out.update(re.findall(r"(?<!\\)\{([^\\:{}]+)\}", n["default"]["s"]))
        elif n["k"] == "tmpl":
            out.update(re.findall(r"(?<!\\)\{([^\\:{}]+)\}", n["s"]))
        elif n["k"] == "switch" and isinstance(n["disp"], str):
            out.add(n["disp"])
        elif n["k"] == "map":
            for key, _ in n["iters"]:
                out.add(key)

    walk(spec["root"], f)
    for d in spec["defs"]:
        walk(d.get("params", []), f)
        if isinstance(d.get("dispatch"), str):
            out.add(d["dispatch"])
        else:
            walk(d.get("dispatch"), f)
        walk(d.get("overloads", []), f)
        walk(d.get("callback", []), f)
        walk(d.get("effects", []), f)
    return out


# ---- exclusions switched on by open known findings ------------------------------------------------
def normalise(spec, flags, ctx=None):
    """Remove, by construction, the shapes of open known findings from a generated spec.
    Returns the (possibly rewritten) spec; each applied exclusion is counted on ctx."""
    import copy
    applied = set()
    kinds = kinds_in(spec)
    if "dclass" in kinds:
        # known finding K5 (no list support in confectioner.set_dotted_key): a dataset class that reports a list-indexed key
        # cannot be instantiated. Programs that contain a dataset-class node read whole lists instead of list elements;
        # this is applied in every check (the shape is the same wherever the class sits) and counted.
        listy = []
        walk(spec, lambda n: listy.append(n) if n["k"] == "opt" and any(seg.isdigit() for seg in n["key"].split(".")) else None)
        if listy:
            spec = copy.deepcopy(spec)

            def fix(n):
                if n["k"] == "opt" and any(seg.isdigit() for seg in n["key"].split(".")):
                    n["key"] = n["key"].split(".")[0]
            walk(spec, fix)
            applied.add("no-set-list-index")
    if not flags:
        if ctx is not None:
            for a in applied:
                ctx.exclude(a)
        return spec
    spec = copy.deepcopy(spec)
    if "no-effect-option-params" in flags:
        for d in spec["defs"]:
            for e in d.get("effects", []):
                if "param" in e:
                    e.pop("param")
                    applied.add("no-effect-option-params")
    if "no-allopts" in flags:
        def strip(n):
            if n["k"] == "allopts":
                n.clear()
                n.update({"k": "val", "v": None})
        walk(spec, strip)
    if ctx is not None:
        for a in applied:
            ctx.exclude(a)
    return spec


def static_choosers(spec):
    """Names of bodies that can run while a branch-selecting value is computed somewhere in the program:
    everything reachable (through dataset references) from a dispatch, bind source, case dispatch or
    predicate argument, or Map iterable."""
    defs = {d["name"]: d for d in spec["defs"]}
    roots = []

    def collect(n):
        k = n["k"]
        if k == "switch" and not isinstance(n["disp"], str):
            roots.append(n["disp"])
        elif k == "bind":
            roots.append(n["src"])
        elif k == "case":
            roots.append(n["disp"])
            for p, _ in n["cases"]:
                if "arg" in p:
                    roots.append(p["arg"])
        elif k == "map":
            for _, it in n["iters"]:
                roots.append(it)

    walk(spec, collect)
    for d in spec["defs"]:
        if d.get("dispatch") is not None and not isinstance(d["dispatch"], str):
            roots.append(d["dispatch"])
    out, seen = set(), set()

    def reach(node):
        found = []
        walk(node, lambda n: found.append(n))
        for n in found:
            if n["k"] == "ovfn":
                out.add(n["name"])
            name = n.get("name") if n["k"] == "ref" else n.get("base") if n["k"] == "derived" else None
            if name and name not in seen:
                seen.add(name)
                out.add(name)
                reach(defs[name])

    for r in roots:
        reach(r)
    return out


def k6_excluded(ctx, ref, dicts, single_evaluation=False):
    """Known finding K6 (keys omit what an absorbed failure read) can change an evaluate outcome only through the cache
    key of a cached consumer around the absorbing expression: such runs carry the reference label 'absorbed-under-cache'.
    With a fresh build per dictionary (single_evaluation) the stale entry must moreover come from the same evaluation,
    i.e. some dataset is visited at least twice in it. Counts the exclusion; returns True when the case is to be skipped."""
    if "no-coalesce-value-failure" not in ctx.flags:
        return False
    for o in dicts:
        r = ref.run(o)
        if "absorbed-under-cache" in r.labels and (not single_evaluation or any(len(v) >= 2 for v in r.visits.values())):
            ctx.exclude("no-coalesce-value-failure")
            return True
    return False
