"""Key / value universe and option-dictionary strategies shared by the generators.

Everything random is drawn through Hypothesis so cases shrink and replay.
"""
from __future__ import annotations

import copy

from hypothesis import strategies as st

FLAT = ["A", "B", "C", "D", "E"]
SECTION_S = ["S.X", "S.Y", "S.Z"]
SECTION_R = ["R.U.V", "R.U.W"]
DISPATCH_KEYS = ["K", "R.K"]
THRESH = "T"
NONCE = "N"
LIST_KEYS = ["L.0", "L.1"]

# leaf keys whose value is a JSON scalar / list / templated string
VALUE_KEYS = FLAT + SECTION_S + SECTION_R
# every key an Option in a generated program may name
OPTION_KEYS = VALUE_KEYS + DISPATCH_KEYS + [THRESH, "S", "R.U", "L"] + LIST_KEYS
# order used to keep templated references acyclic: a value may only reference later keys
REF_ORDER = FLAT + SECTION_S + SECTION_R + [THRESH]

SCALARS = [None, False, True, 0, 1, 2, -1, "", "a", "b"]
FALSY = [None, False, 0, "", []]
HASHABLE_DISPATCH = [None, True, False, 0, 1, 2, "a", "b"]
THRESH_VALUES = [-1, 0, 1, 2, 3]


def scalars():
    return st.sampled_from(SCALARS)


def plain_values():
    return st.one_of(
        scalars(),
        scalars(),
        st.sampled_from([[], [1], ["a", "b"], [0, None]]),
    )


def _later(key):
    i = REF_ORDER.index(key) if key in REF_ORDER else -1
    return REF_ORDER[i + 1:]


@st.composite
def templated_value(draw, key):
    """A string (or list holding strings) that references keys later than `key` in REF_ORDER."""
    later = [k for k in _later(key) if k != THRESH] or ["T"]
    ref = draw(st.sampled_from(later))
    form = draw(st.sampled_from(["single", "single", "multi", "two", "escaped", "in_list", "in_nested_list"]))
    if form == "single":
        return "{%s}" % ref
    if form == "multi":
        return "p{%s}q" % ref
    if form == "two":
        ref2 = draw(st.sampled_from(later))
        return "{%s}-{%s}" % (ref, ref2)
    if form == "escaped":
        return "\\{x\\}{%s}" % ref
    if form == "in_list":
        return ["{%s}" % ref, 1]
    return [["{%s}" % ref]]


def leaf_value(key, templates=True):
    if not templates or key not in REF_ORDER or not _later(key):
        return plain_values()
    return st.one_of(plain_values(), plain_values(), plain_values(), templated_value(key))


@st.composite
def option_dicts(draw, templates=True, p_present=0.6, with_thresh=True):
    """A nested JSON options dictionary over the universe."""
    o = {}
    pres = st.sampled_from(range(100)).map(lambda x: x < p_present * 100)
    for k in FLAT:
        if draw(pres):
            o[k] = draw(leaf_value(k, templates))
    if draw(pres):
        s = {}
        for k in SECTION_S:
            if draw(pres):
                s[k.split(".")[1]] = draw(leaf_value(k, templates))
        o["S"] = s
    if draw(pres):
        r = {}
        if draw(pres):
            u = {}
            for k in SECTION_R:
                if draw(pres):
                    u[k.split(".")[2]] = draw(leaf_value(k, templates))
            r["U"] = u
        if draw(pres):
            r["K"] = draw(st.sampled_from(HASHABLE_DISPATCH))
        o["R"] = r
    if draw(pres):
        o["K"] = draw(st.sampled_from(HASHABLE_DISPATCH))
    if with_thresh and draw(pres):
        o["T"] = draw(st.sampled_from(THRESH_VALUES))
    if draw(pres):
        o["L"] = draw(st.lists(scalars(), max_size=3))
    return o


# ---- own dotted access (independent of confectioner) -------------------------------------------
class Absent:
    def __repr__(self):
        return "ABSENT"


ABSENT = Absent()


def dotted_get(o, dotted):
    cur = o
    for seg in dotted.split("."):
        if isinstance(cur, dict):
            if _is_int(seg):
                return ABSENT
            if seg not in cur:
                return ABSENT
            cur = cur[seg]
        elif isinstance(cur, list):
            if not _is_int(seg):
                return ABSENT
            i = int(seg)
            if i >= len(cur) or i < -len(cur):
                return ABSENT
            cur = cur[i]
        else:
            return ABSENT
    return cur


def _is_int(seg):
    try:
        int(seg)
        return True
    except ValueError:
        return False


def dotted_has(o, dotted):
    return dotted_get(o, dotted) is not ABSENT


def dotted_set(o, dotted, value):
    """Return a deep copy of o with dotted := value (dict segments only; lists by index)."""
    o = copy.deepcopy(o)
    segs = dotted.split(".")
    cur = o
    for i, seg in enumerate(segs[:-1]):
        if isinstance(cur, list):
            cur = cur[int(seg)]
            continue
        if not isinstance(cur.get(seg), (dict, list)):
            cur[seg] = {}
        cur = cur[seg]
    last = segs[-1]
    if isinstance(cur, list):
        cur[int(last)] = value
    else:
        cur[last] = value
    return o


def dotted_del(o, dotted):
    o = copy.deepcopy(o)
    segs = dotted.split(".")
    cur = o
    for seg in segs[:-1]:
        if isinstance(cur, dict) and seg in cur:
            cur = cur[seg]
        elif isinstance(cur, list) and _is_int(seg) and int(seg) < len(cur):
            cur = cur[int(seg)]
        else:
            return o
    last = segs[-1]
    if isinstance(cur, dict):
        cur.pop(last, None)
    elif isinstance(cur, list) and _is_int(last) and int(last) < len(cur):
        del cur[int(last)]
    return o


def nest(flat):
    """{'S.X': 1, 'A': 2} -> {'S': {'X': 1}, 'A': 2}  (dict segments only)"""
    out = {}
    for k, v in flat.items():
        cur = out
        segs = k.split(".")
        for seg in segs[:-1]:
            if not isinstance(cur.get(seg), dict):
                cur[seg] = {}
            cur = cur[seg]
        cur[segs[-1]] = v
    return out


def overlay(base, top):
    """Own recursive overlay: `top` wins; dict over dict merges key by key; anything else replaces."""
    if not isinstance(base, dict) or not isinstance(top, dict):
        return copy.deepcopy(top)
    out = {k: copy.deepcopy(v) for k, v in base.items()}
    for k, v in top.items():
        if isinstance(v, dict):
            out[k] = overlay(out.get(k, {}), v) if isinstance(out.get(k), dict) else copy.deepcopy(v)
        else:
            out[k] = copy.deepcopy(v)
    return out


def restrict(o, keys):
    """o restricted to exactly the dotted keys in `keys` (nested)."""
    out = {}
    for k in sorted(keys, key=lambda s: s.count(".")):
        v = dotted_get(o, k)
        if v is ABSENT:
            continue
        segs = k.split(".")
        if any(_is_int(s) for s in segs):
            # list-indexed key: keep the whole list up to the index position
            top = ".".join(segs[: next(i for i, s in enumerate(segs) if _is_int(s))])
            out = dotted_set(out, top, copy.deepcopy(dotted_get(o, top)))
        else:
            out = dotted_set(out, k, copy.deepcopy(v))
    return out


# ---- neighbour edits ---------------------------------------------------------------------------
UNMENTIONED = ["Z1", "Z2", "S.Q", "R.U.Q", "R.Q"]


@st.composite
def edit_dict(draw, o, templates=True, allow_unmentioned=True, focus=None):
    """One neighbour edit of o: change / delete / add a mentioned key, add an unmentioned key,
    or permute the top-level order."""
    kinds = ["set", "set", "set", "del", "perm"] + (["unmentioned"] if allow_unmentioned else [])
    kind = draw(st.sampled_from(kinds))
    settable = VALUE_KEYS + DISPATCH_KEYS + [THRESH, "L"]
    focus = [k for k in (focus or []) if k in settable]
    if kind == "set":
        # neighbour edits concentrate on the keys the program mentions (when given)
        key = draw(st.sampled_from(focus)) if focus and draw(st.sampled_from(range(10))) < 7 else draw(st.sampled_from(settable))
        if key in DISPATCH_KEYS:
            v = draw(st.sampled_from(HASHABLE_DISPATCH))
        elif key == THRESH:
            v = draw(st.sampled_from(THRESH_VALUES))
        elif key == "L":
            v = draw(st.lists(scalars(), max_size=3))
        else:
            v = draw(leaf_value(key, templates))
        return dotted_set(o, key, v), ("set", key)
    if kind == "del":
        present = [k for k in VALUE_KEYS + DISPATCH_KEYS + [THRESH, "L", "S", "R", "R.U"] if dotted_has(o, k)]
        if not present:
            return copy.deepcopy(o), ("noop", None)
        key = draw(st.sampled_from(present))
        return dotted_del(o, key), ("del", key)
    if kind == "perm":
        ks = list(o.keys())
        ks = draw(st.permutations(ks)) if ks else ks
        return {k: copy.deepcopy(o[k]) for k in ks}, ("perm", None)
    key = draw(st.sampled_from(UNMENTIONED))
    v = draw(scalars())
    return dotted_set(o, key, v), ("unmentioned", key)


@st.composite
def histories(draw, min_len=2, max_len=8, templates=True, allow_unmentioned=True, p_present=0.6, focus=None):
    """A list of option dictionaries built from neighbour edits, exact repeats and fresh draws."""
    n = draw(st.integers(min_len, max_len))
    hist = [draw(option_dicts(templates=templates, p_present=p_present))]
    if focus is not None:
        # keys referenced (transitively) by templated values of the base dictionary matter as much as mentioned keys
        import re
        focus = list(focus)
        todo = [hist[0]]
        while todo:
            v = todo.pop()
            if isinstance(v, dict):
                todo.extend(v.values())
            elif isinstance(v, list):
                todo.extend(v)
            elif isinstance(v, str):
                for r in re.findall(r"(?<!\\)\{([^\\:{}]+)\}", v):
                    if r not in focus:
                        focus.append(r)
    kinds = []
    while len(hist) < n:
        how = draw(st.sampled_from(["edit", "edit", "edit", "edit", "edit2", "edit2", "repeat", "repeat", "fresh"]))
        j = draw(st.integers(0, len(hist) - 1))
        if how == "repeat":
            hist.append(copy.deepcopy(hist[j]))
        elif how == "fresh":
            hist.append(draw(option_dicts(templates=templates, p_present=p_present)))
        else:
            o, _ = draw(edit_dict(hist[j], templates, allow_unmentioned, focus))
            if how == "edit2":
                o, _ = draw(edit_dict(o, templates, allow_unmentioned, focus))
            hist.append(o)
        kinds.append(how)
    return hist
